"""mirsym values -> serde JSON (inverse of tirload), for comparing a concretely executed result
with the native one"""
from values import *
import mirparse
from mirparse import split_top, strip_generics
from tirload import INTS, generic_args
import models


def dump(eng, v, ty):
    ty = ty.strip()
    v = models.deref(v)
    base = strip_generics(ty)
    if ty in INTS or base in INTS:
        return int(v) if not is_sym(v) else int(str(z3simplify(v)))
    if ty == "bool":
        return bool(v)
    if base == "String":
        return bytes(v.bytes).decode(errors="replace")
    if ty.startswith("("):
        parts = split_top(ty[1:-1])
        return [dump(eng, x, t) for x, t in zip(v.fields, parts)]
    if base == "Vec":
        (t,) = generic_args(ty)
        return [dump(eng, x, t) for x in v.items]
    if base == "Option":
        (t,) = generic_args(ty)
        return None if v.variant == "None" else dump(eng, v.fields[0], t)
    if base == "Box":
        (t,) = generic_args(ty)
        return dump(eng, v.v if isinstance(v, BoxV) else v, t)
    if base in ("HashMap", "BTreeMap"):
        k, t = generic_args(ty)
        return {dump(eng, kk, k): dump(eng, vv, t) for kk, p, vv in v.entries if p is True}
    if base in ("HashSet", "BTreeSet", "UtxoSet"):
        t = generic_args(ty)[0] if "<" in ty else "Utxo"
        return [dump(eng, k, t) for k, p, _ in v.entries if p is True]
    if base in ("AssetPolicy", "AssetName"):
        return [int(x) for x in v.items]
    if base == "CanonicalAssets":
        m = models.deref(v.fields[0])
        return sorted([[dump(eng, k, "AssetClass"), int(x)] for k, p, x in m.entries if p is True], key=repr)
    ft = mirparse.field_types().get(base)
    if ft is None:
        raise Unmodelled("no field types for %s" % ty)
    if ft[0] == "struct":
        q, d = eng.tdef(base, "struct")
        types = dict(ft[1])
        return {f: dump(eng, v.fields[i], types[f]) for i, f in enumerate(d[2])}
    if ft[0] == "tuple":
        if len(ft[1]) == 1:
            return dump(eng, v.fields[0], ft[1][0])
        return [dump(eng, x, t) for x, t in zip(v.fields, ft[1])]
    vinfo = ft[1][v.variant]
    if vinfo[0] == "unit":
        return v.variant
    if vinfo[0] == "tuple":
        if len(vinfo[1]) == 1:
            return {v.variant: dump(eng, v.fields[0], vinfo[1][0])}
        return {v.variant: [dump(eng, x, t) for x, t in zip(v.fields, vinfo[1])]}
    return {v.variant: {f: dump(eng, v.fields[i], t) for i, (f, t) in enumerate(vinfo[1])}}


def z3simplify(v):
    import z3
    return z3.simplify(v)
