"""serde JSON (externally tagged, as printed by the front-end helper) -> mirsym values, guided by
the field types read from the repository's sources"""
import re
from values import *
import mirparse
from mirparse import split_top, strip_generics

INTS = {"i8", "i16", "i32", "i64", "i128", "isize", "u8", "u16", "u32", "u64", "u128", "usize"}


def generic_args(t):
    i = t.index("<")
    return split_top(t[i + 1:t.rindex(">")])


def load(eng, j, ty):
    ty = ty.strip()
    base = strip_generics(ty)
    if ty in INTS or base in INTS:
        return int(j)
    if ty == "bool":
        return bool(j)
    if base == "String":
        return StrM(j, True)
    if ty.startswith("("):
        parts = split_top(ty[1:-1])
        return tup(*[load(eng, x, t) for x, t in zip(j, parts)])
    if base == "Vec":
        (t,) = generic_args(ty)
        return VecM([load(eng, x, t) for x in j])
    if base == "Option":
        (t,) = generic_args(ty)
        return none() if j is None else some(load(eng, j, t))
    if base == "Box":
        (t,) = generic_args(ty)
        return BoxV(load(eng, j, t))
    if base in ("HashMap", "BTreeMap"):
        k, v = generic_args(ty)
        return MapM(base, [[load(eng, kk, k), True, load(eng, vv, v)] for kk, vv in j.items()])
    if base in ("HashSet", "BTreeSet", "UtxoSet"):
        t = generic_args(ty)[0] if "<" in ty else "Utxo"
        return MapM("HashSet" if base != "BTreeSet" else base, [[load(eng, x, t), True, unit()] for x in j])
    if base in ("AssetPolicy", "AssetName"):
        return VecM([int(x) for x in j])
    ft = mirparse.field_types().get(base)
    if ft is None:
        raise Unmodelled("no field types for %s" % ty)
    if ft[0] == "struct":
        q, d = eng.tdef(base, "struct")
        vals = {}
        for fname, ftype in ft[1]:
            if fname not in j:
                raise Unmodelled("field %s missing in JSON of %s" % (fname, base))
            vals[fname] = load(eng, j[fname], ftype)
        return Agg(q, None, 0, [vals[f] for f in d[2]])
    if ft[0] == "tuple":
        q, d = eng.tdef(base, "struct")
        if len(ft[1]) == 1:
            return Agg(q, None, 0, [load(eng, j, ft[1][0])])
        return Agg(q, None, 0, [load(eng, x, t) for x, t in zip(j, ft[1])])
    # enum
    if isinstance(j, str):
        return eng.mk_variant(base, j, [])
    (vname, payload), = j.items()
    v = ft[1][vname]
    if v[0] == "tuple":
        if len(v[1]) == 1:
            fields = [load(eng, payload, v[1][0])]
        else:
            fields = [load(eng, x, t) for x, t in zip(payload, v[1])]
    elif v[0] == "struct":
        fields = [load(eng, payload[f], t) for f, t in v[1]]
    else:
        fields = []
    r = eng.mk_variant(base, vname, fields)
    if r is None:
        raise Unmodelled("variant %s::%s" % (base, vname))
    return r
