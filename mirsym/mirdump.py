"""Dump rustc MIR of the repository's crates from /repo's current working tree.

`cargo +nightly rustc --offline -p <crate> --lib -- -Zunpretty=mir` prints the MIR of every
function of the crate (private ones, closures, coroutines included).  Dumps are cached under
/verif/.cache/mir keyed by a hash of the crate's sources + Cargo.lock + overflow mode, so a run
after an edit re-dumps and a run without one does not."""
import hashlib, os, subprocess, sys, time, glob

REPO = os.environ.get("VERIF_REPO", "/repo")
CACHE = os.path.join(os.path.dirname(os.path.dirname(os.path.abspath(__file__))), ".cache")
MIRDIR = os.path.join(CACHE, "mir")

CRATES = {
    "tx3-tir": "crates/tx3-tir",
    "tx3-cardano": "crates/tx3-cardano",
    "tx3-resolver": "crates/tx3-resolver",
    "tx3-lang": "crates/tx3-lang",
    "tx3c": "bin/tx3c",
}
BIN = {"tx3c": "tx3c"}          # binary crates: dumped with --bin <name>
# crates whose sources influence a crate's MIR (path dependencies)
DEPS = {
    "tx3-tir": ["tx3-tir"],
    "tx3-cardano": ["tx3-cardano", "tx3-tir"],
    "tx3-resolver": ["tx3-resolver", "tx3-tir"],
    "tx3-lang": ["tx3-lang", "tx3-tir"],
    "tx3c": ["tx3c", "tx3-lang", "tx3-tir"],
}


def src_hash(crate, overflow):
    h = hashlib.sha256()
    h.update(("ovf=%s" % overflow).encode())
    for c in DEPS[crate]:
        root = os.path.join(REPO, CRATES[c])
        for p in sorted(glob.glob(os.path.join(root, "**", "*"), recursive=True)):
            if os.path.isfile(p) and (p.endswith(".rs") or p.endswith(".toml") or p.endswith(".pest")):
                h.update(p.encode())
                h.update(open(p, "rb").read())
    h.update(open(os.path.join(REPO, "Cargo.lock"), "rb").read())
    return h.hexdigest()[:16]


def dump(crate, overflow="on"):
    """returns the path of the MIR text for `crate` (dumping it if the cache is stale)"""
    os.makedirs(MIRDIR, exist_ok=True)
    key = src_hash(crate, overflow)
    out = os.path.join(MIRDIR, "%s.%s.%s.mir" % (crate, overflow, key))
    if os.path.exists(out) and os.path.getsize(out) > 1000:
        return out
    for old in glob.glob(os.path.join(MIRDIR, "%s.%s.*.mir" % (crate, overflow))):
        os.remove(old)
    env = dict(os.environ)
    env["CARGO_NET_OFFLINE"] = "true"
    env["CARGO_TARGET_DIR"] = os.path.join(CACHE, "mir-target")
    env.pop("RUSTFLAGS", None)
    # cargo does not re-run rustc if nothing changed, which would give an empty dump
    target = ["--bin", BIN[crate]] if crate in BIN else ["--lib"]
    cmd = ["cargo", "+nightly", "rustc", "--offline", "-p", crate] + target + ["--",
           "-Zunpretty=mir", "-C", "debug-assertions=off", "-C", "overflow-checks=%s" % overflow,
           "--cfg", "tx3_verif_mirdump_%d" % int(time.time())]
    p = subprocess.run(cmd, cwd=REPO, env=env, capture_output=True, text=True)
    if p.returncode != 0 or len(p.stdout) < 1000:
        sys.stderr.write(p.stderr[-3000:])
        raise RuntimeError("MIR dump of %s failed" % crate)
    with open(out, "w") as fh:
        fh.write(p.stdout)
    return out


if __name__ == "__main__":
    for c in sys.argv[1:] or list(CRATES):
        t = time.time()
        print(c, dump(c), "%.1fs" % (time.time() - t))
