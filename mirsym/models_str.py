"""String / text models of engine M over StrM (lists of concrete or symbolic bytes, concrete
length).  Each model states the std / hex / serde_json contract it implements."""
import re
import z3
from values import *
from models import deref, veq, vclone
from mirparse import strip_generics


def sbytes(v):
    v = deref(v)
    if isinstance(v, StrM):
        return v.bytes
    if isinstance(v, (VecM, SliceV)):
        return list(v.items)
    raise Unmodelled("text of %s" % type(v).__name__)


def bv8(eng, x):
    return eng.to_bv(x, 8)


def ch_eq(eng, x, c):
    if isinstance(x, int):
        return x == c
    return bv8(eng, x) == c


def is_hex(eng, x):
    if isinstance(x, int):
        return (48 <= x <= 57) or (97 <= x <= 102) or (65 <= x <= 70)
    X = bv8(eng, x)
    return z3.Or(z3.And(z3.UGE(X, 48), z3.ULE(X, 57)), z3.And(z3.UGE(X, 97), z3.ULE(X, 102)), z3.And(z3.UGE(X, 65), z3.ULE(X, 70)))


def hex_val(eng, x):
    if isinstance(x, int):
        return int(chr(x), 16)
    X = bv8(eng, x)
    return z3.If(z3.ULE(X, 57), X - 48, z3.If(z3.UGE(X, 97), X - 87, X - 55))


def is_digit(eng, x):
    if isinstance(x, int):
        return 48 <= x <= 57
    X = bv8(eng, x)
    return z3.And(z3.UGE(X, 48), z3.ULE(X, 57))


def starts_with(eng, s, pat):
    if len(pat) > len(s):
        return False
    return b_and(*[ch_eq(eng, s[i], pat[i]) if isinstance(pat[i], int) else veq(eng, s[i], pat[i]) for i in range(len(pat))])


def register(eng):
    M = eng.models

    def model(*keys):
        def deco(f):
            for k in keys:
                M[k] = f
            return f
        return deco

    def pattern_bytes(p):
        p = deref(p)
        if isinstance(p, StrM):
            return p.bytes
        if isinstance(p, int):
            return [p]          # a char pattern (ASCII)
        raise Unmodelled("pattern %r" % (p,))

    @model("str::starts_with")
    def _(eng, a, c):
        p = deref(a[1])
        if isinstance(p, (Closure, FnItem)):
            # a `char -> bool` pattern: applied to the first character (ASCII: one byte = one char)
            s = sbytes(a[0])
            if not s:
                return False
            return eng.call_callable(p, [s[0]])
        return starts_with(eng, sbytes(a[0]), pattern_bytes(a[1]))

    def _char_pred(lo_hi):
        def m(eng, a, c):
            x = deref(a[0])
            if isinstance(x, int):
                return any(lo <= x <= hi for lo, hi in lo_hi)
            X = eng.to_bv(x, x.size()) if is_sym(x) else x
            return z3.Or(*[z3.And(z3.UGE(X, lo), z3.ULE(X, hi)) for lo, hi in lo_hi])
        return m
    M["char::is_ascii_uppercase"] = M["u8::is_ascii_uppercase"] = _char_pred([(65, 90)])
    M["char::is_ascii_lowercase"] = M["u8::is_ascii_lowercase"] = _char_pred([(97, 122)])
    M["char::is_ascii_digit"] = M["u8::is_ascii_digit"] = _char_pred([(48, 57)])
    M["char::is_ascii_alphabetic"] = M["u8::is_ascii_alphabetic"] = _char_pred([(65, 90), (97, 122)])
    M["char::is_ascii_alphanumeric"] = M["u8::is_ascii_alphanumeric"] = _char_pred([(48, 57), (65, 90), (97, 122)])

    @model("str::ends_with")
    def _(eng, a, c):
        s, p = sbytes(a[0]), pattern_bytes(a[1])
        if len(p) > len(s):
            return False
        return starts_with(eng, s[len(s) - len(p):], p)

    @model("str::strip_prefix")
    def _(eng, a, c):
        s, p = sbytes(a[0]), pattern_bytes(a[1])
        if eng.decide(starts_with(eng, s, p)):
            return some(StrM(s[len(p):]))
        return none()

    @model("str::trim_start_matches")
    def _(eng, a, c):
        # strips *every* leading repetition of the pattern
        s, p = list(sbytes(a[0])), pattern_bytes(a[1])
        while len(p) > 0 and eng.decide(starts_with(eng, s, p)):
            s = s[len(p):]
        return StrM(s)

    @model("str::split_once")
    def _(eng, a, c):
        s, p = sbytes(a[0]), pattern_bytes(a[1])
        for i in range(len(s) - len(p) + 1):
            if eng.decide(starts_with(eng, s[i:], p)):
                return some(tup(StrM(s[:i]), StrM(s[i + len(p):])))
        return none()

    @model("str::lines")
    def _(eng, a, c):
        # std contract: split at '\n', a trailing '\r' of a line is removed, no empty last line
        from models import list_iter
        s = list(sbytes(a[0]))
        lines, cur = [], []
        for b in s:
            if eng.decide(b == 10 if isinstance(b, int) else bv8(eng, b) == 10):
                lines.append(cur); cur = []
            else:
                cur.append(b)
        if cur:
            lines.append(cur)
        out = []
        for ln in lines:
            if ln and eng.decide(ln[-1] == 13 if isinstance(ln[-1], int) else bv8(eng, ln[-1]) == 13):
                ln = ln[:-1]
            out.append(StrM(ln))
        return list_iter(out, False)

    @model("str::contains")
    def _(eng, a, c):
        s, p = sbytes(a[0]), pattern_bytes(a[1])
        return b_or(*[starts_with(eng, s[i:], p) for i in range(len(s) - len(p) + 1)])

    @model("str::to_lowercase", "str::to_ascii_lowercase")
    def _(eng, a, c):
        out = []
        for x in sbytes(a[0]):
            if isinstance(x, int):
                out.append(x + 32 if 65 <= x <= 90 else x)
            else:
                X = bv8(eng, x)
                out.append(z3.If(z3.And(z3.UGE(X, 65), z3.ULE(X, 90)), X + 32, X))
        return StrM(out, True)

    @model("hex::decode", "hex::FromHex::from_hex")
    def _(eng, a, c):
        # hex crate contract: Err(OddLength) on odd length, Err(InvalidHexCharacter) on a non-hex
        # character, otherwise the bytes (both cases of a-f accepted)
        s = sbytes(a[0])
        if len(s) % 2:
            return err(eng.mk_variant("FromHexError", "OddLength", []) or Agg("FromHexError", "OddLength", 1, []))
        if not eng.decide(b_and(*[is_hex(eng, x) for x in s])):
            return err(Agg("FromHexError", "InvalidHexCharacter", 0, [0, 0]))
        out = []
        for i in range(0, len(s), 2):
            hi, lo = hex_val(eng, s[i]), hex_val(eng, s[i + 1])
            if isinstance(hi, int) and isinstance(lo, int):
                out.append(hi * 16 + lo)
            else:
                out.append(eng.to_bv(hi, 8) * 16 + eng.to_bv(lo, 8))
        return ok(VecM(out))

    def parse_int(eng, s, ty, radix, c):
        import engine as E
        w, sg = E.INT[ty]
        if len(s) == 0:
            return err(Opaque("ParseIntError", ["Empty"]))
        neg = False
        digits = s
        first = s[0]
        if eng.decide(ch_eq(eng, first, 43)):           # '+'
            digits = s[1:]
        elif sg and eng.decide(ch_eq(eng, first, 45)):  # '-'
            digits, neg = s[1:], True
        if len(digits) == 0:
            return err(Opaque("ParseIntError", ["InvalidDigit"]))
        valid = b_and(*[(is_digit(eng, x) if radix == 10 else is_hex(eng, x)) for x in digits])
        if not eng.decide(valid):
            return err(Opaque("ParseIntError", ["InvalidDigit"]))
        bits_per = 4 if radix == 16 else 4
        wide = max(w, bits_per * len(digits)) + 8
        may_overflow = radix ** len(digits) - 1 > (1 << (w - 1 if sg else w)) - 1
        if all(isinstance(x, int) for x in digits):
            v = int(bytes(digits).decode(), radix)
            v = -v if neg else v
            lo = -(1 << (w - 1)) if sg else 0
            hi = (1 << (w - 1)) - 1 if sg else (1 << w) - 1
            if not (lo <= v <= hi):
                return err(Opaque("ParseIntError", ["Overflow"]))
            return ok(v)
        acc = z3.BitVecVal(0, wide)
        for x in digits:
            d = hex_val(eng, x) if radix == 16 else (bv8(eng, x) - 48)
            acc = acc * radix + z3.ZeroExt(wide - 8, eng.to_bv(d, 8))
        if may_overflow:
            limit = (1 << (w - 1)) if (sg and neg) else ((1 << (w - 1)) - 1 if sg else (1 << w) - 1)
            if eng.decide(z3.UGT(acc, z3.BitVecVal(limit, wide))):
                return err(Opaque("ParseIntError", ["Overflow"]))
        acc = z3.Extract(w - 1, 0, acc)
        if neg:
            acc = -acc
        return ok(acc)

    @model("i128::from_str_radix", "u32::from_str_radix", "u64::from_str_radix", "i64::from_str_radix", "usize::from_str_radix")
    def _(eng, a, c):
        ty = re.search(r"([iu](?:\d+|size))>?::from_str_radix", c).group(1)
        radix = a[1]
        if radix not in (10, 16):
            raise Unmodelled("radix %r" % (radix,))
        return parse_int(eng, sbytes(a[0]), ty, radix, c)

    @model("str::parse", "FromStr::from_str")
    def _(eng, a, c):
        m = re.search(r"::parse::<(\w+)>", c)
        ty = m.group(1) if m else strip_generics(eng._self_t or "")
        import engine as E
        if ty in E.INT:
            return parse_int(eng, sbytes(a[0]), ty, 10, c)
        m2 = eng.models.get("FromStr::from_str@" + ty)
        if m2:
            return m2(eng, a, c)
        raise Unmodelled("parse::<%s>" % ty)

    @model("TryFrom::try_from@[]", "TryInto::try_into@Vec")
    def _(eng, a, c):
        # <[u8; N]>::try_from(Vec<u8>): Ok iff len == N (Err gives the vector back)
        m = re.search(r"\[u8; (\d+)\]", c)
        n = int(m.group(1))
        v = deref(a[0])
        if len(v.items) == n:
            return ok(VecM(list(v.items), "array"))
        return err(v)

    @model("Engine::decode", "base64::decode")
    def _(eng, a, c):
        # base64 decoding is uninterpreted: Ok(bytes) or Err (both explored)
        if eng.choose(2, "base64 decodes") == 0:
            return ok(Opaque("base64_bytes", [deref(a[-1])]))
        return err(Agg("DecodeError", "InvalidByte", 0, [0, 0]))

    @model("bech32::decode")
    def _(eng, a, c):
        if eng.choose(2, "bech32 decodes") == 0:
            return ok(tup(Opaque("hrp"), Opaque("bech32_bytes", [deref(a[0])])))
        return err(Opaque("bech32_error"))

    # ---- serde_json::Number (integers only: i64 / u64 range, as a 128-bit value)
    @model("Number::as_i128")
    def _(eng, a, c):
        n = deref(a[0])
        return some(n.fields[0])

    @model("Number::as_i64")
    def _(eng, a, c):
        n = deref(a[0]); v = n.fields[0]
        fits = eng.binop("Le", v, (1 << 63) - 1, "i128")
        return some(eng.cast_int(v, "i128", "i64")) if eng.decide(fits) else none()

    @model("From::from@Number")
    def _(eng, a, c):
        src = strip_generics(eng._tg or "i32")
        return Agg("Number", None, 0, [eng.cast_int(a[0], src, "i128")])

    @model("PartialEq::eq@Number")
    def _(eng, a, c):
        return veq(eng, deref(a[0]).fields[0], deref(a[1]).fields[0])

    @model("PartialEq::eq@String", "PartialEq::eq@str")
    def _(eng, a, c):
        return veq(eng, StrM(sbytes(a[0])), StrM(sbytes(a[1])))
