"""Value domain of mirsym (DESIGN.md App. C)."""
import z3


class Unmodelled(Exception):
    """a call / construct the interpreter has no semantics for: the run is INCONCLUSIVE"""


class Panic(Exception):
    def __init__(s, kind, msg="", site=""):
        Exception.__init__(s, "%s: %s @ %s" % (kind, msg, site))
        s.kind, s.msg, s.site = kind, msg, site


class Infeasible(Exception):
    """current path contradicts its own path condition (pruned)"""


class StepLimit(Exception):
    pass


class Agg:
    """struct / tuple / enum value with a concrete variant"""
    __slots__ = ("ty", "variant", "vidx", "fields")

    def __init__(s, ty, variant, vidx, fields):
        s.ty, s.variant, s.vidx, s.fields = ty, variant, vidx, fields

    def __repr__(s):
        v = ("::" + s.variant) if s.variant else ""
        return "%s%s%s" % (s.ty, v, s.fields if s.fields else "")


def unit():
    return Agg("()", None, 0, [])


def tup(*xs):
    return Agg("(tuple)", None, 0, list(xs))


def some(x):
    return Agg("Option", "Some", 1, [x])


def none():
    return Agg("Option", "None", 0, [])


def ok(x):
    return Agg("Result", "Ok", 0, [x])


def err(x):
    return Agg("Result", "Err", 1, [x])


class BoxV:
    __slots__ = ("v",)

    def __init__(s, v):
        s.v = v

    def __repr__(s):
        return "Box(%r)" % (s.v,)


class Ref:
    """a reference = lazily evaluated access path"""
    __slots__ = ("_get", "_set", "desc")

    def __init__(s, get, set_=None, desc=""):
        s._get, s._set, s.desc = get, set_, desc

    def get(s):
        return s._get()

    def set(s, v):
        if s._set is None:
            raise Unmodelled("write through read-only reference " + s.desc)
        s._set(v)

    def __repr__(s):
        try:
            return "&%r" % (s.get(),)
        except Exception:
            return "&<%s>" % s.desc


def ref_to_value(v):
    """a reference to a temporary holding v"""
    cell = [v]
    return Ref(lambda: cell[0], lambda x: cell.__setitem__(0, x), "tmp")


class VecM:
    """Vec<T> / [T; N] / boxed slice: concrete length, element values arbitrary"""
    __slots__ = ("items", "kind")

    def __init__(s, items, kind="Vec"):
        s.items, s.kind = list(items), kind

    def __repr__(s):
        return "%s%r" % (s.kind, s.items)


class SliceV:
    """&[T] view into a VecM"""
    __slots__ = ("vec", "lo", "hi")

    def __init__(s, vec, lo, hi):
        s.vec, s.lo, s.hi = vec, lo, hi

    @property
    def items(s):
        return s.vec.items[s.lo:s.hi]

    def __repr__(s):
        return "&%r" % (s.items,)


class StrM:
    """String / &str: list of bytes (ints or 8-bit vectors); `owned` distinguishes String"""
    __slots__ = ("bytes", "owned")

    def __init__(s, b, owned=False):
        if isinstance(b, str):
            b = list(b.encode())
        s.bytes, s.owned = list(b), owned

    def concrete(s):
        return all(isinstance(x, int) for x in s.bytes)

    def text(s):
        return bytes(s.bytes).decode(errors="replace")

    def __repr__(s):
        return ("S" if s.owned else "s") + (repr(s.text()) if s.concrete() else "<sym %d>" % len(s.bytes))


class MapM:
    """HashMap / HashSet / BTreeMap / BTreeSet as a bounded association list with symbolic
    presence flags: entries = [[key, present, value]] (value = unit for sets).  Keys of different
    entries are pairwise distinct (harness invariant; checked on insertion when concrete)."""
    __slots__ = ("kind", "entries")

    def __init__(s, kind, entries=None):
        s.kind, s.entries = kind, [list(e) for e in (entries or [])]

    def ordered(s):
        return s.kind.startswith("BTree")

    def is_set(s):
        return s.kind.endswith("Set")

    def __repr__(s):
        return "%s{%s}" % (s.kind, ", ".join("%r%s:%r" % (k, "" if p is True else "?[%s]" % p, v) for k, p, v in s.entries))


class Closure:
    __slots__ = ("span", "fields", "names", "tparams")

    def __init__(s, span, fields, names, tparams=None):
        s.span, s.fields, s.names, s.tparams = span, fields, names, tparams

    def __repr__(s):
        return "{closure@%s}" % s.span


class FnItem:
    __slots__ = ("name",)

    def __init__(s, name):
        s.name = name

    def __repr__(s):
        return "fn(%s)" % s.name


class Opaque:
    """result of an uninterpreted function: equal iff structurally equal"""
    __slots__ = ("fn", "args")

    def __init__(s, fn, args=()):
        s.fn, s.args = fn, tuple(args)

    def __repr__(s):
        return "%s(%s)" % (s.fn, ", ".join(map(repr, s.args)))


class IterM:
    """iterator model: `nxt(eng)` returns the next element or STOP"""
    __slots__ = ("nxt", "desc", "size_hint")

    def __init__(s, nxt, desc="iter"):
        s.nxt, s.desc = nxt, desc

    def __repr__(s):
        return "<%s>" % s.desc


STOP = object()


def is_sym(x):
    return isinstance(x, z3.ExprRef)


def b_and(*xs):
    out = []
    for x in xs:
        if x is True:
            continue
        if x is False:
            return False
        out.append(x)
    if not out:
        return True
    return out[0] if len(out) == 1 else z3.And(*out)


def b_or(*xs):
    out = []
    for x in xs:
        if x is False:
            continue
        if x is True:
            return True
        out.append(x)
    if not out:
        return False
    return out[0] if len(out) == 1 else z3.Or(*out)


def b_not(a):
    if isinstance(a, bool):
        return not a
    return z3.Not(a)


def b_ite(c, a, b):
    """if-then-else over ints / bools (no aggregates)"""
    if c is True:
        return a
    if c is False:
        return b
    if isinstance(a, bool) or z3.is_bool(a) if is_sym(a) else isinstance(a, bool):
        a2 = z3.BoolVal(a) if isinstance(a, bool) else a
        b2 = z3.BoolVal(b) if isinstance(b, bool) else b
        return z3.If(c, a2, b2)
    if is_sym(a):
        w = a.size()
    elif is_sym(b):
        w = b.size()
    else:
        raise Unmodelled("ite over two concrete ints needs a width")
    a2 = z3.BitVecVal(a, w) if isinstance(a, int) else a
    b2 = z3.BitVecVal(b, w) if isinstance(b, int) else b
    return z3.If(c, a2, b2)
