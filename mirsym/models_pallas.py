"""Contracts for the pallas leaf constructors engine M meets in tx3-cardano (DESIGN.md §1.2).
Each of them is also executed for real by engine K in the twin Kani harnesses."""
import re
import z3
from values import *
from models import deref, vclone, veq, collect, list_iter, to_iter, drain, map_insert
from mirparse import strip_generics


def register(eng):
    M = eng.models

    def model(*keys):
        def deco(f):
            for k in keys:
                M[k] = f
            return f
        return deco

    @model("TryFrom::try_from@Int")
    def _(eng, a, c):
        # pallas_codec::utils::Int (minicbor Int): representable iff -2^64 <= x <= 2^64 - 1
        x = a[0]
        if isinstance(x, int):
            fits = -(1 << 64) <= x <= (1 << 64) - 1
        else:
            fits = z3.And(x >= z3.BitVecVal(-(1 << 64), 128), x <= z3.BitVecVal((1 << 64) - 1, 128))
        if eng.decide(fits):
            return ok(Agg("Int", None, 0, [x]))
        return err(Agg("TryFromIntError", None, 0, []))

    @model("From::from@Int")
    def _(eng, a, c):
        x = a[0]
        src = strip_generics(eng._tg or "i64")
        return Agg("Int", None, 0, [eng.cast_int(x, src, "i128")])

    @model("From::from@BoundedBytes", "From::from@Bytes", "Into::into@Bytes", "Into::into@BoundedBytes")
    def _(eng, a, c):
        dst = strip_generics(eng._self_t)
        if "as Into" in c:
            dst = strip_generics(eng._tg)
        x = deref(a[0])
        if isinstance(x, Agg) and x.ty in ("BoundedBytes", "Bytes"):
            return x.fields[0] if dst == "Vec" else Agg(dst, None, 0, [x.fields[0]])
        if isinstance(x, Opaque):
            return x if dst == "Vec" else Agg(dst, None, 0, [x])       # bytes of an uninterpreted encoding
        if dst == "Vec":
            return VecM(list(x.items))
        return Agg(dst, None, 0, [VecM(list(x.items))])

    @model("Deref::deref@BoundedBytes", "Deref::deref@Bytes", "AsRef::as_ref@Bytes", "Bytes::as_slice", "Deref::deref@Hash", "AsRef::as_ref@Hash")
    def _(eng, a, c):
        x = deref(a[0])
        if isinstance(x, Opaque):
            return Opaque("bytes_of", [x])
        v = x.fields[0]
        return SliceV(v, 0, len(v.items)) if isinstance(v, VecM) else v

    @model("Bytes::to_vec")
    def _(eng, a, c):
        return VecM(list(deref(a[0]).fields[0].items))

    @model("TryFrom::try_from@PositiveCoin")
    def _(eng, a, c):
        x = a[0]
        if eng.decide(eng.binop("Eq", x, 0, "u64")):
            return err(x)
        return ok(Agg("PositiveCoin", None, 0, [x]))

    @model("TryFrom::try_from@NonZeroInt")
    def _(eng, a, c):
        x = a[0]
        if eng.decide(eng.binop("Eq", x, 0, "i64")):
            return err(x)
        return ok(Agg("NonZeroInt", None, 0, [x]))

    @model("From::from@u64", "From::from@i64")
    def _(eng, a, c):
        x = deref(a[0])
        if isinstance(x, Agg) and x.ty in ("PositiveCoin", "NonZeroInt"):
            return x.fields[0]
        raise Unmodelled("conversion " + c)

    @model("From::from@Hash")
    def _(eng, a, c):
        # Hash::<N>::from(&[u8]) copies into [u8; N]: panics on a length mismatch
        # `Hash::<N>::from(x)` names N in the self type, `x.into()` in the trait's generic argument
        m = re.search(r"Hash<(\d+)>", eng._self_t or "") or re.search(r"Hash<(\d+)>", eng._tg or "") or re.search(r"Hash<(\d+)>", c or "")
        n = int(m.group(1)) if m else None
        if n is None:
            raise Unmodelled("Hash::from without a known size: " + str(c))
        x = deref(a[0])
        items = list(x.items)
        if n is not None and len(items) != n:
            raise Panic("copy_from_slice", "source slice length (%d) does not match destination slice length (%d)" % (len(items), n), c)
        return Agg("Hash", None, 0, [VecM(items, "array")])

    @model("NonEmptySet::from_vec", "NonEmptyKeyValuePairs::from_vec")
    def _(eng, a, c):
        v = deref(a[0])
        if len(v.items) == 0:
            return none()
        return some(Agg("NonEmptySet", None, 0, [v]))

    @model("From::from@KeepRaw", "KeepRaw::from")
    def _(eng, a, c):
        return Agg("KeepRaw", None, 0, [a[0]])

    @model("Deref::deref@KeepRaw", "KeepRaw::unwrap")
    def _(eng, a, c):
        x = deref(a[0])
        return Ref(lambda: x.fields[0], None, "keepraw")

    @model("Deref::deref@NonEmptySet", "NonEmptySet::to_vec", "Deref::deref@Set")
    def _(eng, a, c):
        x = deref(a[0])
        v = x.fields[0]
        return SliceV(v, 0, len(v.items)) if "to_vec" not in c else VecM(list(v.items))

    @model("From::from@Set", "Into::into@Set")
    def _(eng, a, c):
        return Agg("Set", None, 0, [deref(a[0])])

    @model("From::from@Nullable")
    def _(eng, a, c):
        o = deref(a[0])
        if o.variant == "Some":
            return Agg("Nullable", "Some", 0, [o.fields[0]])
        return Agg("Nullable", "Null", 1, [])

    @model("From::from@CborWrap")
    def _(eng, a, c):
        return Agg("CborWrap", None, 0, [a[0]])

    # ---- addresses (pallas_addresses): structure from the header byte, payload bytes kept
    def mk_address(eng, bs, c):
        """Address::from_bytes contract on concrete-length bytes with a concrete header"""
        bs = list(bs)
        if not bs:
            return err(Opaque("address_error: missing header"))
        if not isinstance(bs[0], int):
            raise Unmodelled("address with symbolic header byte")
        ty = bs[0] >> 4
        # pallas checks `payload.len() < N` only: longer input is accepted and the rest ignored
        if ty in (0, 1, 2, 3, 4, 5, 6, 7):
            need = {0: 57, 1: 57, 2: 57, 3: 57, 4: 30, 5: 30, 6: 29, 7: 29}[ty]
            if len(bs) < need:
                return err(Opaque("address_error"))
            if ty not in (4, 5):
                bs = bs[:need]
            return ok(eng.mk_variant("Address", "Shelley", [Agg("ShelleyAddress", None, 0, [VecM(bs)])]))
        if ty in (14, 15):
            if len(bs) < 29:
                return err(Opaque("address_error"))
            return ok(eng.mk_variant("Address", "Stake", [Agg("StakeAddress", None, 0, [VecM(bs[:29])])]))
        if ty == 8:
            return ok(eng.mk_variant("Address", "Byron", [Agg("ByronAddress", None, 0, [VecM(bs)])]))
        return err(Opaque("address_error"))

    @model("Address::from_bytes")
    def _(eng, a, c):
        return mk_address(eng, deref(a[0]).items, c)

    @model("Address::to_vec", "StakeAddress::to_vec", "ShelleyAddress::to_vec", "ByronAddress::to_vec")
    def _(eng, a, c):
        x = deref(a[0])
        if x.ty == "Address":
            x = deref(x.fields[0])
        return VecM(list(x.fields[0].items))

    @model("From::from@Address", "Into::into@ShelleyAddress", "Into::into@StakeAddress")
    def _(eng, a, c):
        x = deref(a[0])
        if x.ty == "ShelleyAddress":
            return eng.mk_variant("Address", "Shelley", [x])
        if x.ty == "StakeAddress":
            return eng.mk_variant("Address", "Stake", [x])
        raise Unmodelled("address conversion " + c)

    @model("ShelleyAddress::new")
    def _(eng, a, c):
        net, pay, deleg = deref(a[0]), deref(a[1]), deref(a[2])
        # header: type nibble from payment/delegation kinds, network nibble
        kind = {("Key", "Key"): 0, ("Script", "Key"): 1, ("Key", "Script"): 2, ("Script", "Script"): 3,
                ("Key", "Pointer"): 4, ("Script", "Pointer"): 5, ("Key", "Null"): 6, ("Script", "Null"): 7}[(pay.variant, deleg.variant)]
        netbits = 1 if net.variant == "Mainnet" else 0
        bs = [(kind << 4) | netbits] + list(deref(deref(pay.fields[0]).fields[0]).items)
        if deleg.variant in ("Key", "Script"):
            bs += list(deref(deref(deleg.fields[0]).fields[0]).items)
        return Agg("ShelleyAddress", None, 0, [VecM(bs)])

    @model("ShelleyAddress::payment")
    def _(eng, a, c):
        x = deref(a[0]); bs = x.fields[0].items
        h = Agg("Hash", None, 0, [VecM(bs[1:29], "array")])
        v = "Script" if (bs[0] >> 4) & 1 else "Key"
        return ref_to_value(eng.mk_variant("ShelleyPaymentPart", v, [h]))

    @model("ShelleyAddress::delegation")
    def _(eng, a, c):
        x = deref(a[0]); bs = x.fields[0].items
        ty = bs[0] >> 4
        if ty in (0, 1):
            return ref_to_value(eng.mk_variant("ShelleyDelegationPart", "Key", [Agg("Hash", None, 0, [VecM(bs[29:57], "array")])]))
        if ty in (2, 3):
            return ref_to_value(eng.mk_variant("ShelleyDelegationPart", "Script", [Agg("Hash", None, 0, [VecM(bs[29:57], "array")])]))
        if ty in (4, 5):
            return ref_to_value(eng.mk_variant("ShelleyDelegationPart", "Pointer", [Opaque("pointer")]))
        return ref_to_value(eng.mk_variant("ShelleyDelegationPart", "Null", []))

    @model("TryFrom::try_from@StakeAddress", "TryInto::try_into@ShelleyAddress")
    def _(eng, a, c):
        # StakeAddress::try_from(ShelleyAddress): the reward address of the delegation part (key / script), else Err
        x = deref(a[0]); bs = x.fields[0].items
        ty = bs[0] >> 4
        if ty in (0, 1, 2, 3):
            header = (0xE0 if ty in (0, 1) else 0xF0) | (bs[0] & 0x0F)
            return ok(Agg("StakeAddress", None, 0, [VecM([header] + list(bs[29:57]))]))
        return err(Opaque("address_error: no stake credential"))

    @model("ShelleyDelegationPart::to_vec")
    def _(eng, a, c):
        x = deref(a[0])
        if x.variant in ("Key", "Script"):
            return VecM(list(deref(deref(x.fields[0]).fields[0]).items))
        if x.variant == "Null":
            return VecM([])
        return Opaque("pointer_bytes")

    @model("StakeAddress::payload")
    def _(eng, a, c):
        x = deref(a[0]); bs = x.fields[0].items
        v = "Script" if (bs[0] >> 4) == 15 else "Stake"
        return ref_to_value(eng.mk_variant("StakePayload", v, [Agg("Hash", None, 0, [VecM(bs[1:29], "array")])]))

    @model("FromStr::from_str@Address", "Address::from_bech32", "Address::from_hex")
    def _(eng, a, c):
        # textual address parsing: uninterpreted (Ok(opaque address) or Err)
        if eng.choose(2, "address text parses") == 0:
            return ok(eng.mk_variant("Address", "Shelley", [Agg("ShelleyAddress", None, 0, [VecM([0x60] + [0x11] * 28)])]))
        return err(Opaque("address_error"))

    # ---- uninterpreted: encoders and digests (only wiring claims are made through these)
    @model("minicbor::to_vec", "to_vec", "ComputeHash::compute_hash", "ScriptData::hash", "OriginalHash::original_hash", "Hasher::hash", "Hash::to_vec")
    def _(eng, a, c):
        name = re.sub(r"::<.*", "", c.split("::")[-1]) if not c.startswith("<") else c.split(">::")[-1]
        if "to_vec" in c and ("minicbor" in c or c.startswith("to_vec")):
            return ok(Opaque("cbor", [deref(a[0])]))
        return Opaque(name, [deref(x) for x in a])

    @model("minicbor::decode", "minicbor::decode_with")
    def _(eng, a, c):
        # uninterpreted decoder: succeeds or fails (both explored)
        if eng.choose(2, "decode outcome") == 0:
            return ok(Opaque("decoded", [deref(a[0])]))
        return err(Opaque("decode_error"))

    @model("KeepRaw::to_owned", "ToOwned::to_owned@KeepRaw")
    def _(eng, a, c):
        return deref(a[0])

    @model("ScriptData::build_for")
    def _(eng, a, c):
        ws = deref(a[0])
        return Opaque("ScriptData::build_for", [ws, deref(a[1])]) if False else _script_data(eng, ws, deref(a[1]))

    def _script_data(eng, ws, lv):
        # pallas contract: Some(..) iff the witness set has redeemers (or plutus data)
        names = eng.foreign_fields.get("WitnessSet") or (eng.tdef("WitnessSet", "struct")[1] or (None, None, []))[2]
        red = None
        if "redeemer" in names:
            red = deref(ws.fields[names.index("redeemer")])
        if red is not None and isinstance(red, Agg) and red.ty == "Option" and red.variant == "Some":
            return some(Opaque("ScriptData", [ws, lv]))
        pd = deref(ws.fields[names.index("plutus_data")]) if "plutus_data" in names else none()
        if isinstance(pd, Agg) and pd.variant == "Some":
            return some(Opaque("ScriptData", [ws, lv]))
        return none()
