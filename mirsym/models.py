"""Standard-library models of engine M (the trusted base; every harness's evidence lists the
ones it actually used).  A model acts on the value domain of values.py; closures passed to a
model are the repository's MIR closure bodies, executed by the engine."""
import re, itertools
import z3
from values import *
from mirparse import strip_generics


def deref(v):
    while isinstance(v, Ref):
        v = v.get()
    return v


def deref_box(v):
    v = deref(v)
    while isinstance(v, BoxV):
        v = deref(v.v)
    return v


# ----------------------------------------------------------------------------- equality / clone

def veq(eng, a, b):
    """structural equality -> bool | z3 Bool"""
    a, b = deref(a), deref(b)
    if isinstance(a, BoxV):
        a = a.v
    if isinstance(b, BoxV):
        b = b.v
    if isinstance(a, (bool, int)) or is_sym(a):
        if isinstance(a, bool) or (is_sym(a) and z3.is_bool(a)) or isinstance(b, bool):
            if not is_sym(a) and not is_sym(b):
                return a == b
            A = z3.BoolVal(a) if isinstance(a, bool) else a
            B = z3.BoolVal(b) if isinstance(b, bool) else b
            return A == B
        if isinstance(a, int) and isinstance(b, int):
            return a == b
        w = a.size() if is_sym(a) else b.size()
        return eng.to_bv(a, w) == eng.to_bv(b, w)
    if isinstance(a, Agg):
        if not isinstance(b, Agg):
            return False
        if a.variant != b.variant or len(a.fields) != len(b.fields):
            return False
        return b_and(*[veq(eng, x, y) for x, y in zip(a.fields, b.fields)])
    if isinstance(a, (VecM, SliceV)):
        if not isinstance(b, (VecM, SliceV)):
            return False
        xs, ys = a.items, b.items
        if len(xs) != len(ys):
            return False
        return b_and(*[veq(eng, x, y) for x, y in zip(xs, ys)])
    if isinstance(a, StrM):
        if not isinstance(b, StrM) or len(a.bytes) != len(b.bytes):
            return False
        return b_and(*[veq(eng, x, y) for x, y in zip(a.bytes, b.bytes)])
    if isinstance(a, MapM):
        return map_eq(eng, a, b)
    if isinstance(a, Opaque):
        if not isinstance(b, Opaque) or a.fn != b.fn or len(a.args) != len(b.args):
            return False if not isinstance(b, Opaque) or a.fn != b.fn else False
        return b_and(*[veq(eng, x, y) for x, y in zip(a.args, b.args)])
    if a is None and b is None:
        return True
    raise Unmodelled("equality of %s and %s" % (type(a).__name__, type(b).__name__))


def vclone(eng, v):
    """`Clone::clone` of derived-Clone data: deep copy (references are kept)"""
    if isinstance(v, (bool, int)) or is_sym(v) or v is None:
        return v
    if isinstance(v, Agg):
        return Agg(v.ty, v.variant, v.vidx, [vclone(eng, x) for x in v.fields])
    if isinstance(v, BoxV):
        return BoxV(vclone(eng, v.v))
    if isinstance(v, VecM):
        return VecM([vclone(eng, x) for x in v.items], v.kind)
    if isinstance(v, SliceV):
        return v
    if isinstance(v, StrM):
        return StrM(list(v.bytes), v.owned)
    if isinstance(v, MapM):
        return MapM(v.kind, [[vclone(eng, k), p, vclone(eng, x)] for k, p, x in v.entries])
    if isinstance(v, (Ref, Opaque, FnItem)):
        return v
    if isinstance(v, Closure):
        return Closure(v.span, [vclone(eng, x) for x in v.fields], v.names)
    raise Unmodelled("clone of %s" % type(v).__name__)


# ----------------------------------------------------------------------------- maps

def map_find(eng, m, key):
    """index of the entry whose key equals `key` (keys are concrete-comparable), else None"""
    for i, (k, p, v) in enumerate(m.entries):
        e = veq(eng, k, key)
        if e is True:
            return i
        if e is not False:
            if eng.decide(e):
                return i
    return None


def map_eq(eng, a, b):
    """HashMap == HashMap: same set of present keys with equal values"""
    conds = []
    used_b = set()
    for k, p, v in a.entries:
        j = None
        for jj, (k2, _, _) in enumerate(b.entries):
            e = veq(eng, k, k2)
            if e is True:
                j = jj; break
            if e is not False:
                raise Unmodelled("map equality with symbolic keys")
        if j is None:
            conds.append(b_not(p))
        else:
            used_b.add(j)
            p2, v2 = b.entries[j][1], b.entries[j][2]
            both = b_and(p, p2)
            neither = b_and(b_not(p), b_not(p2))
            conds.append(b_or(b_and(both, veq(eng, v, v2)), neither))
    for jj, (k2, p2, _) in enumerate(b.entries):
        if jj not in used_b:
            conds.append(b_not(p2))
    return b_and(*conds)


def map_len(eng, m):
    n, sym = 0, []
    for _, p, _ in m.entries:
        if p is True:
            n += 1
        elif p is not False:
            sym.append(z3.If(p, z3.BitVecVal(1, 64), z3.BitVecVal(0, 64)))
    if not sym:
        return n
    t = z3.BitVecVal(n, 64)
    for x in sym:
        t = t + x
    return t


def map_iter_order(eng, m):
    """the order in which entries are visited: key order for B-trees; for hash containers the
    harness chooses between 'fixed' (list order) and 'all' (every permutation, forked)"""
    idx = list(range(len(m.entries)))
    if m.ordered():
        try:
            idx.sort(key=lambda i: sort_key(m.entries[i][0]))
        except Unmodelled:
            # symbolic keys: insertion sort with forked comparisons
            order = []
            for i in idx:
                pos = len(order)
                for j in range(len(order)):
                    if eng.decide(eng.key_lt(eng, m.entries[i][0], m.entries[order[j]][0])):
                        pos = j; break
                order.insert(pos, i)
            return order
        return idx
    if eng.map_order == "all" and len(idx) > 1:
        perms = list(itertools.permutations(idx))
        return list(perms[eng.choose(len(perms), "hash iteration order")])
    return idx


def sort_key(v):
    v = deref(v)
    if isinstance(v, bool):
        return (0, int(v))
    if isinstance(v, int):
        return (0, v)
    if isinstance(v, (VecM, SliceV)):
        return (1, tuple(sort_key(x) for x in v.items))
    if isinstance(v, StrM) and v.concrete():
        return (1, tuple((0, x) for x in v.bytes))
    if isinstance(v, Agg):
        return (2, v.vidx, tuple(sort_key(x) for x in v.fields))
    raise Unmodelled("ordering of symbolic key %r" % (v,))


def map_iter(eng, m, mode):
    """mode: 'ref' -> (&k, &v) | 'mut' -> (&k, &mut v) | 'own' -> (k, v) | 'keys' | 'values' | 'set_ref' | 'set_own'"""
    order = map_iter_order(eng, m)
    pos = [0]

    def nxt(eng):
        while pos[0] < len(order):
            e = m.entries[order[pos[0]]]
            pos[0] += 1
            if not eng.decide(e[1]):
                continue
            kref = Ref(lambda e=e: e[0], None, "mapkey")
            vref = Ref(lambda e=e: e[2], lambda x, e=e: e.__setitem__(2, x), "mapval")
            if mode == "ref" or mode == "mut":
                return tup(kref, vref)
            if mode == "own":
                return tup(e[0], e[2])
            if mode == "keys" or mode == "set_ref":
                return kref
            if mode == "set_own":
                return e[0]
            if mode == "values":
                return vref
            if mode == "into_values":
                return e[2]
            if mode == "into_keys":
                return e[0]
        return STOP
    return IterM(nxt, "%s::%s" % (m.kind, mode))


# ----------------------------------------------------------------------------- iterators

def list_iter(items, by_ref, container=None):
    pos = [0]

    def nxt(eng):
        if pos[0] >= len(items):
            return STOP
        i = pos[0]; pos[0] += 1
        if by_ref:
            if container is not None:
                return Ref(lambda: container[i], lambda x: container.__setitem__(i, x), "elem")
            return Ref(lambda: items[i], None, "elem")
        return items[i]
    return IterM(nxt, "list")


def to_iter(eng, v):
    """IntoIterator::into_iter on a value or a reference"""
    byref = isinstance(v, Ref)
    x = deref(v)
    if isinstance(x, IterM):
        return x
    if isinstance(x, VecM):
        return list_iter(x.items if byref else list(x.items), byref, x.items if byref else None)
    if isinstance(x, SliceV):
        base, lo = x.vec.items, x.lo
        n = x.hi - x.lo
        pos = [0]

        def nxt(eng):
            if pos[0] >= n:
                return STOP
            i = lo + pos[0]; pos[0] += 1
            return Ref(lambda: base[i], lambda y: base.__setitem__(i, y), "elem")
        return IterM(nxt, "slice")
    if isinstance(x, MapM):
        if x.is_set():
            return map_iter(eng, x, "set_ref" if byref else "set_own")
        return map_iter(eng, x, "ref" if byref else "own")
    if isinstance(x, Agg) and x.ty == "Option":
        items = [x.fields[0]] if x.variant == "Some" else []
        if byref:
            return list_iter(items, True, x.fields)
        return list_iter(items, False)
    if isinstance(x, Agg) and x.ty == "Result":
        items = [x.fields[0]] if x.variant == "Ok" else []
        return list_iter(items, byref, x.fields if byref else None)
    raise Unmodelled("into_iter of %s" % eng.runtime_type(x))


def drain(eng, it):
    out = []
    it = deref(it)
    while True:
        x = it.nxt(eng)
        if x is STOP:
            return out
        out.append(x)


def it_map(eng, it, f):
    it = deref(it)

    def nxt(eng):
        x = it.nxt(eng)
        if x is STOP:
            return STOP
        return eng.call_callable(f, [x])
    return IterM(nxt, "map")


def it_filter(eng, it, f):
    it = deref(it)

    def nxt(eng):
        while True:
            x = it.nxt(eng)
            if x is STOP:
                return STOP
            if eng.decide(eng.call_callable(f, [ref_to_value(x)])):
                return x
    return IterM(nxt, "filter")


def it_filter_map(eng, it, f):
    it = deref(it)

    def nxt(eng):
        while True:
            x = it.nxt(eng)
            if x is STOP:
                return STOP
            r = deref(eng.call_callable(f, [x]))
            if r.variant == "Some":
                return r.fields[0]
    return IterM(nxt, "filter_map")


def it_flat_map(eng, it, f):
    it = deref(it)
    cur = [None]

    def nxt(eng):
        while True:
            if cur[0] is not None:
                y = cur[0].nxt(eng)
                if y is not STOP:
                    return y
                cur[0] = None
            x = it.nxt(eng)
            if x is STOP:
                return STOP
            r = eng.call_callable(f, [x]) if f is not None else x
            cur[0] = to_iter(eng, r)
    return IterM(nxt, "flat_map")


def it_chain(eng, a, b):
    a = deref(a); b = to_iter(eng, b)
    st = [0]

    def nxt(eng):
        if st[0] == 0:
            x = a.nxt(eng)
            if x is not STOP:
                return x
            st[0] = 1
        return b.nxt(eng)
    return IterM(nxt, "chain")


def it_enumerate(eng, it):
    it = deref(it)
    n = [0]

    def nxt(eng):
        x = it.nxt(eng)
        if x is STOP:
            return STOP
        i = n[0]; n[0] += 1
        return tup(i, x)
    return IterM(nxt, "enumerate")


def it_take(eng, it, k):
    it = deref(it)
    n = [0]

    def nxt(eng):
        if is_sym(k):
            if not eng.decide(z3.UGT(k, z3.BitVecVal(n[0], k.size()))):
                return STOP
        elif n[0] >= k:
            return STOP
        n[0] += 1
        return it.nxt(eng)
    return IterM(nxt, "take")


def it_skip(eng, it, k):
    it = deref(it)
    done = [False]

    def nxt(eng):
        if not done[0]:
            done[0] = True
            for _ in range(k):
                if it.nxt(eng) is STOP:
                    return STOP
        return it.nxt(eng)
    return IterM(nxt, "skip")


def it_cloned(eng, it):
    it = deref(it)

    def nxt(eng):
        x = it.nxt(eng)
        if x is STOP:
            return STOP
        return vclone(eng, deref(x))
    return IterM(nxt, "cloned")


def it_zip(eng, a, b):
    a = deref(a); b = to_iter(eng, b)

    def nxt(eng):
        x = a.nxt(eng)
        if x is STOP:
            return STOP
        y = b.nxt(eng)
        if y is STOP:
            return STOP
        return tup(x, y)
    return IterM(nxt, "zip")


def it_rev(eng, it):
    items = drain(eng, it)
    return list_iter(list(reversed(items)), False)


def collect(eng, it, target):
    """Iterator::collect / FromIterator::from_iter into the turbofish / return type `target`"""
    t = target.strip()
    base = strip_generics(t)
    if base == "Result":
        # Result<C, E>: stop at the first Err
        inner = t[t.index("<") + 1:t.rindex(">")]
        from mirparse import split_top
        parts = split_top(inner)
        out = []
        itv = deref(it)
        while True:
            x = itv.nxt(eng)
            if x is STOP:
                break
            x = deref(x)
            if x.variant == "Err":
                return err(x.fields[0])
            out.append(x.fields[0])
        return ok(collect(eng, list_iter(out, False), parts[0]))
    if base == "Option":
        inner = t[t.index("<") + 1:t.rindex(">")]
        out = []
        itv = deref(it)
        while True:
            x = itv.nxt(eng)
            if x is STOP:
                break
            x = deref(x)
            if x.variant == "None":
                return none()
            out.append(x.fields[0])
        return some(collect(eng, list_iter(out, False), inner))
    items = drain(eng, it)
    if base in ("Vec", "_", "VecDeque") or t.startswith("Vec<"):
        return VecM(items)
    if base in ("KeyValuePairs", "NonEmptyKeyValuePairs"):
        return Agg(base, "Def", 0, [VecM(items)])
    if base in ("HashMap", "BTreeMap", "Metadata"):
        m = MapM("BTreeMap" if base != "HashMap" else "HashMap")
        for kv in items:
            kv = deref(kv)
            map_insert(eng, m, kv.fields[0], kv.fields[1])
        return m
    if base in ("HashSet", "BTreeSet"):
        m = MapM(base)
        for k in items:
            map_insert(eng, m, k, unit())
        return m
    if base == "String":
        out = []
        for x in items:
            x = deref(x)
            if isinstance(x, StrM):
                out += x.bytes
            else:
                out.append(x)
        return StrM(out, True)
    raise Unmodelled("collect into " + t)


def map_insert(eng, m, k, v):
    """returns the previous value as Option"""
    i = map_find(eng, m, k)
    if i is None:
        m.entries.append([k, True, v])
        return none()
    e = m.entries[i]
    was = eng.decide(e[1])
    old = e[2]
    e[1], e[2] = True, v
    return some(old) if was else none()


# ----------------------------------------------------------------------------- registration

class Coroutine:
    """async fn body: captured upvars + state; driven to completion by `Future::poll`"""

    def __init__(s, span, fields, names):
        s.span, s.fields, s.names, s.state = span, fields, names, 0
        s.vfields = {}
        s.poll_fn = None

    def __repr__(s):
        return "{async@%s state=%d}" % (s.span, s.state)


class VariantView:
    """`(coroutine as variant#k)`: the per-suspension-state fields of a coroutine"""

    def __init__(s, co, k):
        s.co, s.k = co, k


class ReadyFuture:
    """a future that is ready at its first poll (store model)"""

    def __init__(s, v):
        s.v = v


def register(eng):
    M = eng.models

    def model(*keys):
        def deco(f):
            for k in keys:
                M[k] = f
            return f
        return deco

    # ---- panics
    @model("panic_fmt", "panic", "panic_display", "panic_explicit", "panicking::panic", "panicking::panic_fmt", "panicking::panic_display", "panicking::panic_explicit",
           "panicking::unreachable_display", "panicking::panic_nounwind", "rt::begin_panic", "panicking::panic_const::panic_const_div_by_zero")
    def _panic(eng, a, callee):
        msg = ""
        if a:
            x = deref(a[0])
            if isinstance(x, StrM) and x.concrete():
                msg = x.text()
            elif isinstance(x, Opaque):
                msg = repr(x)
        kind = "unreachable" if "unreachable" in callee or "unreachable" in msg else ("todo" if "not yet implemented" in msg else "panic")
        raise Panic(kind, msg, callee)

    @model("result::unwrap_failed")
    def _uf(eng, a, callee):
        raise Panic("unwrap", "called `Result::unwrap()` on an `Err` value", callee)

    @model("option::unwrap_failed")
    def _uf2(eng, a, callee):
        raise Panic("unwrap", "called `Option::unwrap()` on a `None` value", callee)

    @model("option::expect_failed", "result::expect_failed")
    def _ef(eng, a, callee):
        raise Panic("expect", deref(a[0]).text() if isinstance(deref(a[0]), StrM) else "", callee)

    @model("panicking::panic_bounds_check")
    def _pb(eng, a, callee):
        raise Panic("index-oob", "index out of bounds", callee)

    @model("panicking::assert_failed")
    def _af(eng, a, callee):
        raise Panic("assert", "assertion failed", callee)

    # ---- formatting: uninterpreted (error-message text is outside every claim)
    @model("fmt::format", "format", "Arguments::new_const", "Arguments::new_v1", "Arguments::new_v1_formatted", "Argument::new_debug",
           "Argument::new_display", "Argument::new_lower_hex", "Arguments::new", "Arguments::from_str", "fmt::Arguments::new_const",
           "Argument::new_upper_hex", "Formatter::write_fmt", "Formatter::write_str", "Formatter::debug_tuple_field1_finish",
           "hex::encode", "Argument::none", "Arguments::from_str_nonconst")
    def _fmt(eng, a, callee):
        if callee.endswith("format") or "hex::encode" in callee or "fmt::format" in callee:
            return Opaque("string")
        return Opaque("fmt")

    @model("ToString::to_string", "ToOwned::to_owned@str", "String::from", "str::to_string", "str::to_owned")
    def _to_string(eng, a, callee):
        x = deref(a[0])
        if isinstance(x, StrM):
            return StrM(list(x.bytes), True)
        if isinstance(x, int) and not isinstance(x, bool):
            return StrM(str(x), True)
        return Opaque("string", [x])

    @model("From::from@String", "Into::into@str", "From::from@str")
    def _string_from(eng, a, callee):
        x = deref(a[0])
        if isinstance(x, StrM):
            return StrM(list(x.bytes), True)
        return x

    @model("io::_eprint", "io::_print", "log::__private_api::log", "tracing::event")
    def _noop(eng, a, callee):
        return unit()

    @model("must_use", "hint::must_use", "convert::identity", "identity", "hint::black_box")
    def _identity(eng, a, callee):
        return a[0]

    # ---- RefCell / Rc: single-threaded interior mutability and sharing; a borrow is a reference to the
    # content (borrow-flag panics are outside the model: the repository never holds two borrows at once)
    @model("RefCell::new", "Cell::new")
    def _refcell_new(eng, a, callee):
        return Agg("RefCell", None, 0, [a[0]])

    @model("RefCell::borrow", "RefCell::borrow_mut", "RefCell::get_mut")
    def _refcell_borrow(eng, a, callee):
        cell = deref(a[0])
        return Ref(lambda: cell.fields[0], lambda x: cell.fields.__setitem__(0, x), "refcell")

    @model("RefCell::into_inner")
    def _refcell_into(eng, a, callee):
        return deref(a[0]).fields[0]

    @model("Deref::deref@Ref", "Deref::deref@RefMut", "DerefMut::deref_mut@RefMut")
    def _refcell_deref(eng, a, callee):
        return a[0] if isinstance(a[0], Ref) else ref_to_value(a[0])

    # ---- Box
    @model("Box::new", "Box::pin")
    def _box_new(eng, a, callee):
        return BoxV(a[0])

    @model("Box::new_uninit")
    def _box_uninit(eng, a, callee):
        from engine import RawBox
        return RawBox()

    @model("boxed::box_assume_init_into_vec_unsafe", "slice::into_vec", "Box::assume_init")
    def _box_into_vec(eng, a, callee):
        b = a[0]
        v = b.v if hasattr(b, "v") else b
        v = deref(v)
        return VecM(list(v.items))

    @model("Deref::deref@Box", "DerefMut::deref_mut@Box", "AsRef::as_ref@Box", "Borrow::borrow@Box")
    def _box_deref(eng, a, callee):
        b = deref(a[0])
        return Ref(lambda: b.v, lambda x: setattr(b, "v", x), "box")

    # ---- Option / Result
    def opt(v):
        v = deref(v)
        if not isinstance(v, Agg):
            raise Unmodelled("expected Option/Result, got %r" % (v,))
        return v

    @model("Option::is_some")
    def _(eng, a, c): return opt(a[0]).variant == "Some"

    @model("Option::is_none")
    def _(eng, a, c): return opt(a[0]).variant == "None"

    @model("Result::is_ok")
    def _(eng, a, c): return opt(a[0]).variant == "Ok"

    @model("Result::is_err")
    def _(eng, a, c): return opt(a[0]).variant == "Err"

    @model("Option::unwrap", "Option::expect")
    def _(eng, a, c):
        o = opt(a[0])
        if o.variant == "None":
            raise Panic("unwrap", "called `Option::unwrap()` on a `None` value", c)
        return o.fields[0]

    @model("Result::unwrap", "Result::expect")
    def _(eng, a, c):
        o = opt(a[0])
        if o.variant == "Err":
            raise Panic("unwrap", "called `Result::unwrap()` on an `Err` value", c)
        return o.fields[0]

    @model("Option::unwrap_or", "Result::unwrap_or")
    def _(eng, a, c):
        o = opt(a[0])
        return o.fields[0] if o.variant in ("Some", "Ok") else a[1]

    @model("Option::unwrap_or_default", "Result::unwrap_or_default")
    def _(eng, a, c):
        o = opt(a[0])
        if o.variant in ("Some", "Ok"):
            return o.fields[0]
        return default_for(eng, c)

    @model("Option::unwrap_or_else")
    def _(eng, a, c):
        o = opt(a[0])
        return o.fields[0] if o.variant == "Some" else eng.call_callable(a[1], [])

    @model("Result::unwrap_or_else")
    def _(eng, a, c):
        o = opt(a[0])
        return o.fields[0] if o.variant == "Ok" else eng.call_callable(a[1], [o.fields[0]])

    @model("Option::map")
    def _(eng, a, c):
        o = opt(a[0])
        return some(eng.call_callable(a[1], [o.fields[0]])) if o.variant == "Some" else none()

    @model("Option::map_or")
    def _(eng, a, c):
        o = opt(a[0])
        return eng.call_callable(a[2], [o.fields[0]]) if o.variant == "Some" else a[1]

    @model("Option::map_or_else")
    def _(eng, a, c):
        o = opt(a[0])
        return eng.call_callable(a[2], [o.fields[0]]) if o.variant == "Some" else eng.call_callable(a[1], [])

    @model("Option::and_then")
    def _(eng, a, c):
        o = opt(a[0])
        return eng.call_callable(a[1], [o.fields[0]]) if o.variant == "Some" else none()

    @model("Option::or_else")
    def _(eng, a, c):
        o = opt(a[0])
        return o if o.variant == "Some" else eng.call_callable(a[1], [])

    @model("Option::or")
    def _(eng, a, c):
        o = opt(a[0])
        return o if o.variant == "Some" else a[1]

    @model("Option::filter")
    def _(eng, a, c):
        o = opt(a[0])
        if o.variant == "Some" and eng.decide(eng.call_callable(a[1], [ref_to_value(o.fields[0])])):
            return o
        return none()

    @model("Option::ok_or")
    def _(eng, a, c):
        o = opt(a[0])
        return ok(o.fields[0]) if o.variant == "Some" else err(a[1])

    @model("Option::ok_or_else")
    def _(eng, a, c):
        o = opt(a[0])
        return ok(o.fields[0]) if o.variant == "Some" else err(eng.call_callable(a[1], []))

    @model("Option::cloned", "Option::copied")
    def _(eng, a, c):
        o = opt(a[0])
        return some(vclone(eng, deref(o.fields[0]))) if o.variant == "Some" else none()

    @model("Option::as_ref", "Option::as_mut", "Option::as_deref", "Result::as_ref")
    def _(eng, a, c):
        o = opt(a[0])
        if o.variant in ("Some", "Ok"):
            inner = Ref(lambda: o.fields[0], lambda x: o.fields.__setitem__(0, x), "opt")
            if c.endswith("as_deref"):
                inner = deref_target(eng, inner)
            return Agg(o.ty, o.variant, o.vidx, [inner])
        if o.variant == "Err":
            return Agg(o.ty, o.variant, o.vidx, [Ref(lambda: o.fields[0], None, "err")])
        return none()

    @model("Option::iter", "Option::iter_mut", "Option::into_iter", "Result::iter")
    def _(eng, a, c):
        return to_iter(eng, a[0] if isinstance(a[0], Ref) else ref_to_value(a[0]))

    @model("Option::transpose")
    def _(eng, a, c):
        o = opt(a[0])
        if o.variant == "None":
            return ok(none())
        r = opt(o.fields[0])
        return ok(some(r.fields[0])) if r.variant == "Ok" else err(r.fields[0])

    @model("Result::transpose")
    def _(eng, a, c):
        r = opt(a[0])
        if r.variant == "Err":
            return some(err(r.fields[0]))
        o = opt(r.fields[0])
        return some(ok(o.fields[0])) if o.variant == "Some" else none()

    @model("Option::take")
    def _(eng, a, c):
        r = a[0]
        o = opt(r)
        r.set(none())
        return o

    @model("Option::get_or_insert", "Option::get_or_insert_with", "Option::insert")
    def _(eng, a, c):
        r = a[0]
        o = opt(r)
        if o.variant == "None" or c.rstrip().endswith("::insert"):
            v = eng.call_callable(a[1], []) if "get_or_insert_with" in c else a[1]
            o = some(v)
            r.set(o)
        return Ref(lambda: o.fields[0], lambda x: o.fields.__setitem__(0, x), "opt")

    @model("Option::flatten")
    def _(eng, a, c):
        o = opt(a[0])
        return opt(o.fields[0]) if o.variant == "Some" else none()

    @model("Option::zip")
    def _(eng, a, c):
        o, p = opt(a[0]), opt(a[1])
        return some(tup(o.fields[0], p.fields[0])) if o.variant == "Some" and p.variant == "Some" else none()

    @model("Option::is_some_and")
    def _(eng, a, c):
        o = opt(a[0])
        return eng.call_callable(a[1], [o.fields[0]]) if o.variant == "Some" else False

    @model("Result::map")
    def _(eng, a, c):
        o = opt(a[0])
        return ok(eng.call_callable(a[1], [o.fields[0]])) if o.variant == "Ok" else o

    @model("Result::map_err")
    def _(eng, a, c):
        o = opt(a[0])
        return err(eng.call_callable(a[1], [o.fields[0]])) if o.variant == "Err" else o

    @model("Result::and_then")
    def _(eng, a, c):
        o = opt(a[0])
        return eng.call_callable(a[1], [o.fields[0]]) if o.variant == "Ok" else o

    @model("Result::ok")
    def _(eng, a, c):
        o = opt(a[0])
        return some(o.fields[0]) if o.variant == "Ok" else none()

    @model("Result::err")
    def _(eng, a, c):
        o = opt(a[0])
        return some(o.fields[0]) if o.variant == "Err" else none()

    @model("Result::or_else")
    def _(eng, a, c):
        o = opt(a[0])
        return o if o.variant == "Ok" else eng.call_callable(a[1], [o.fields[0]])

    @model("Try::branch")
    def _(eng, a, c):
        o = opt(a[0])
        if o.ty == "Result":
            if o.variant == "Ok":
                return Agg("ControlFlow", "Continue", 0, [o.fields[0]])
            return Agg("ControlFlow", "Break", 1, [err(o.fields[0])])
        if o.ty == "Option":
            if o.variant == "Some":
                return Agg("ControlFlow", "Continue", 0, [o.fields[0]])
            return Agg("ControlFlow", "Break", 1, [none()])
        raise Unmodelled("Try::branch on " + o.ty)

    @model("Try::from_output")
    def _(eng, a, c):
        t = strip_generics(eng._self_t)
        return ok(a[0]) if t == "Result" else some(a[0])

    @model("FromResidual::from_residual")
    def _(eng, a, c):
        r = opt(a[0])
        if r.ty == "Option":
            st = strip_generics(eng._self_t)
            return none() if st == "Option" else r
        e = r.fields[0]
        # `?` converts the error with From::from
        st = eng._self_t
        m = re.match(r"Result<(.*)>$", st.strip(), re.S)
        if m:
            from mirparse import split_top
            parts = split_top(m.group(1))
            want = eng.canon_type(parts[-1], eng._cur_module)
            have = eng.runtime_type(e)
            if want != have and have not in ("Opaque",) and not re.fullmatch(r"[A-Z]\w?", want):
                e = convert_from(eng, e, want, parts[-1])
        return err(e)

    def convert_from(eng, v, want, want_full):
        have = eng.runtime_type(v)
        for t, itg, ty, bl, bounds, methods, cself, mod in eng.impls:
            if t == "From" and cself == want and "from" in methods and eng.canon_type(itg, mod) == have:
                return eng.call_fn(methods["from"], [v])
        # the target may be an imported type (`use crate::Error`): accept a unique impl for a type
        # of the same base name
        c = [methods["from"] for t, itg, ty, bl, bounds, methods, cself, mod in eng.impls
             if t == "From" and "from" in methods and cself.split("::")[-1] == want.split("::")[-1] and eng.canon_type(itg, mod) == have]
        if len(c) == 1:
            return eng.call_fn(c[0], [v])
        if have.split("::")[-1] == want.split("::")[-1]:
            return v        # `From<T> for T` (the module guess for an imported type was off)
        raise Unmodelled("error conversion From<%s> for %s" % (have, want))
    eng.convert_from = convert_from

    @model("From::from", "Into::into")
    def _(eng, a, c):
        # identity conversions (From<T> for T) and std conversions on model values
        v = a[0]
        st = strip_generics(eng._self_t)
        tg = strip_generics(eng._tg or "")
        if c.startswith("<") and "as Into" in c:
            src, dst = st, tg
        else:
            src, dst = tg, st
        x = deref(v) if not isinstance(v, Ref) else v
        rt = eng.runtime_type(v)
        if dst == rt or dst == src:
            return v
        if dst == "Vec" and isinstance(deref(v), (VecM, SliceV)):
            return VecM(list(deref(v).items))
        if dst == "String":
            return StrM(list(deref(v).bytes), True)
        if dst in ("HashMap", "BTreeMap", "HashSet", "BTreeSet") and isinstance(deref(v), (VecM, SliceV)):
            return collect(eng, list_iter(list(deref(v).items), False), dst)
        if dst == "Box":
            return BoxV(v)
        if dst == "Option":
            return some(v)
        # user impl From<src> for dst
        for t, itg, ty, bl, bounds, methods, cself, mod in eng.impls:
            if t == "From" and cself.split("::")[-1] == dst and "from" in methods and (eng.canon_type(itg, mod) == rt or strip_generics(itg) == src):
                return eng.call_fn(methods["from"], [v])
        if int_like(v):
            import engine as E
            if dst in E.INT:
                return eng.cast_int(v, src, dst)
        m2 = eng.models.get("From::from@" + dst)
        if m2:
            return m2(eng, a, c)
        raise Unmodelled("conversion %s (src=%s dst=%s runtime=%s)" % (c, src, dst, rt))

    def int_like(v):
        return (isinstance(v, int) and not isinstance(v, bool)) or (is_sym(v) and not z3.is_bool(v))

    @model("TryFrom::try_from", "TryInto::try_into")
    def _(eng, a, c):
        import engine as E
        st = strip_generics(eng._self_t); tg = strip_generics(eng._tg or "")
        src, dst = (st, tg) if "as TryInto" in c else (tg, st)
        v = a[0]
        if dst in E.INT and (src in E.INT or int_like(v)):
            if src not in E.INT:
                raise Unmodelled("try_from with unknown source int type: " + c)
            sw, ssg = E.INT[src]; dw, dsg = E.INT[dst]
            lo = -(1 << (dw - 1)) if dsg else 0
            hi = (1 << (dw - 1)) - 1 if dsg else (1 << dw) - 1
            if isinstance(v, int):
                fits = lo <= v <= hi
            else:
                conds = []
                slo = -(1 << (sw - 1)) if ssg else 0
                shi = (1 << (sw - 1)) - 1 if ssg else (1 << sw) - 1
                if lo > slo:
                    conds.append((v >= z3.BitVecVal(lo, sw)) if ssg else z3.UGE(v, z3.BitVecVal(lo, sw)))
                if hi < shi:
                    conds.append((v <= z3.BitVecVal(hi, sw)) if ssg else z3.ULE(v, z3.BitVecVal(hi, sw)))
                fits = b_and(*conds)
            if eng.decide(fits):
                return ok(eng.cast_int(v, src, dst))
            return err(Agg("TryFromIntError", None, 0, []))
        m2 = eng.models.get("TryFrom::try_from@" + dst)
        if m2:
            return m2(eng, a, c)
        raise Unmodelled("try conversion %s (src=%s dst=%s)" % (c, src, dst))

    # ---- Clone / Default / PartialEq / Ord on model values
    @model("Clone::clone", "ToOwned::to_owned")
    def _(eng, a, c):
        x = deref(a[0])
        if isinstance(x, SliceV):
            return VecM([vclone(eng, y) for y in x.items])
        if isinstance(x, StrM):
            return StrM(list(x.bytes), True)
        return vclone(eng, x)

    def default_for(eng, c):
        t = strip_generics(getattr(eng, "_self_t", "") or "")
        m = re.search(r"(?:Option|Result)::<(.*)>::unwrap_or_default$", c.strip(), re.S)
        if m:
            from mirparse import split_top
            t = strip_generics(split_top(m.group(1))[0])
        if t in ("i128", "u64", "i64", "usize", "u32", "u8", "i32", "u128"):
            return 0
        if t == "bool":
            return False
        if t in ("Vec",):
            return VecM([])
        if t in ("String",):
            return StrM([], True)
        if t in ("HashMap", "HashSet", "BTreeMap", "BTreeSet"):
            return MapM(t)
        if t == "Option":
            return none()
        raise Unmodelled("Default::default for %s (%s)" % (t, c))

    @model("Default::default")
    def _(eng, a, c):
        return default_for(eng, c)

    @model("Not::not")
    def _(eng, a, c): return b_not(deref(a[0])) if isinstance(deref(a[0]), bool) or (is_sym(deref(a[0])) and z3.is_bool(deref(a[0]))) else ~deref(a[0])

    @model("PartialEq::eq")
    def _(eng, a, c): return veq(eng, a[0], a[1])

    @model("PartialEq::ne")
    def _(eng, a, c): return b_not(veq(eng, a[0], a[1]))

    def cmp_vals(eng, a, b, c):
        import engine as E
        x, y = deref(a), deref(b)
        if int_like(x) or int_like(y) or isinstance(x, bool):
            t = strip_generics(re.sub(r"^&+", "", eng._self_t.strip()))
            if t not in E.INT:
                if isinstance(x, int) and isinstance(y, int):
                    return (x > y) - (x < y)
                raise Unmodelled("comparison of ints of unknown type: " + c)
            if isinstance(x, int) and isinstance(y, int):
                return (x > y) - (x < y)
            w, sg = E.INT[t]
            X, Y = eng.to_bv(x, w), eng.to_bv(y, w)
            lt = (X < Y) if sg else z3.ULT(X, Y)
            return ("sym", lt, X == Y)
        try:
            kx, ky = sort_key(x), sort_key(y)
            return (kx > ky) - (kx < ky)
        except Unmodelled:
            return ("sym", eng.key_lt(eng, x, y), veq(eng, x, y))

    def cmp_result(eng, r, want):
        if isinstance(r, tuple):
            _, lt, eq = r
            return {"lt": lt, "le": b_or(lt, eq), "gt": b_not(b_or(lt, eq)), "ge": b_not(lt)}[want]
        return {"lt": r < 0, "le": r <= 0, "gt": r > 0, "ge": r >= 0}[want]

    @model("PartialOrd::lt")
    def _(eng, a, c): return cmp_result(eng, cmp_vals(eng, a[0], a[1], c), "lt")

    @model("PartialOrd::le")
    def _(eng, a, c): return cmp_result(eng, cmp_vals(eng, a[0], a[1], c), "le")

    @model("PartialOrd::gt")
    def _(eng, a, c): return cmp_result(eng, cmp_vals(eng, a[0], a[1], c), "gt")

    @model("PartialOrd::ge")
    def _(eng, a, c): return cmp_result(eng, cmp_vals(eng, a[0], a[1], c), "ge")

    @model("Ord::cmp", "PartialOrd::partial_cmp")
    def _(eng, a, c):
        r = cmp_vals(eng, a[0], a[1], c)
        if isinstance(r, tuple):
            _, lt, eq = r
            r = -1 if eng.decide(lt) else (0 if eng.decide(eq) else 1)
        o = eng.mk_ordering(r)
        return some(o) if c.endswith("partial_cmp") or "partial_cmp" in c else o

    @model("Ord::max", "cmp::max")
    def _(eng, a, c):
        r = cmp_vals(eng, a[0], a[1], c)
        if isinstance(r, tuple):
            return a[1] if eng.decide(b_or(r[1], r[2])) else a[0]
        return a[1] if r <= 0 else a[0]

    @model("Ord::min", "cmp::min")
    def _(eng, a, c):
        r = cmp_vals(eng, a[0], a[1], c)
        if isinstance(r, tuple):
            return a[0] if eng.decide(b_or(r[1], r[2])) else a[1]
        return a[0] if r <= 0 else a[1]

    # ---- Deref on model values
    def deref_target(eng, r):
        x = deref(r)
        if isinstance(x, VecM):
            return SliceV(x, 0, len(x.items))
        if isinstance(x, StrM):
            return x
        if isinstance(x, BoxV):
            return Ref(lambda: x.v, lambda y: setattr(x, "v", y), "box")
        if isinstance(x, SliceV):
            return x
        return r

    @model("Deref::deref", "DerefMut::deref_mut", "AsRef::as_ref", "Borrow::borrow", "AsMut::as_mut", "String::as_str", "String::as_bytes",
           "Vec::as_slice", "Vec::as_mut_slice", "slice::as_slice", "slice::as_mut_slice", "slice::as_ref", "str::as_bytes", "String::as_mut_str", "BorrowMut::borrow_mut")
    def _(eng, a, c):
        x = deref(a[0])
        if isinstance(x, StrM) and ("as_bytes" in c or "[u8]" in c.split(" as ")[-1]):
            return SliceV(VecM(list(x.bytes)), 0, len(x.bytes))
        return deref_target(eng, a[0])

    # ---- Vec / slices
    @model("Vec::new", "Vec::with_capacity")
    def _(eng, a, c): return VecM([])

    @model("Vec::push")
    def _(eng, a, c):
        deref(a[0]).items.append(a[1]); return unit()

    @model("Vec::pop")
    def _(eng, a, c):
        v = deref(a[0])
        return some(v.items.pop()) if v.items else none()

    @model("Vec::len", "slice::len", "str::len", "String::len", "VecDeque::len")
    def _(eng, a, c): return eng.length_of(a[0])

    @model("Vec::is_empty", "slice::is_empty", "str::is_empty", "String::is_empty")
    def _(eng, a, c): return eng.length_of(a[0]) == 0

    @model("slice::to_vec", "slice::to_owned", "Vec::to_vec")
    def _(eng, a, c):
        x = deref(a[0])
        if isinstance(x, Opaque):
            return Opaque("to_vec", [x])
        return VecM([vclone(eng, y) for y in x.items])

    @model("slice::iter", "Vec::iter", "slice::iter_mut", "Vec::iter_mut")
    def _(eng, a, c): return to_iter(eng, a[0] if isinstance(a[0], Ref) else ref_to_value(a[0]))

    @model("slice::first")
    def _(eng, a, c):
        v = deref(a[0])
        if not v.items:
            return none()
        return some(index_ref(v, 0))

    @model("slice::last")
    def _(eng, a, c):
        v = deref(a[0])
        if not v.items:
            return none()
        return some(index_ref(v, len(v.items) - 1))

    def index_ref(v, i):
        if isinstance(v, SliceV):
            base, off = v.vec.items, v.lo + i
        else:
            base, off = v.items, i
        return Ref(lambda: base[off], lambda x: base.__setitem__(off, x), "elem")

    @model("slice::get", "Vec::get")
    def _(eng, a, c):
        v = deref(a[0]); i = a[1]
        n = len(v.items)
        if isinstance(i, Agg):   # a range
            raise Unmodelled("slice::get with a range")
        if is_sym(i):
            for k in range(n):
                if eng.decide(i == k):
                    return some(index_ref(v, k))
            return none()
        return some(index_ref(v, i)) if 0 <= i < n else none()

    @model("Index::index", "IndexMut::index_mut")
    def _(eng, a, c):
        v = deref(a[0]); i = a[1]
        if isinstance(v, MapM):
            j = map_find(eng, v, deref(i))
            if j is None or not eng.decide(v.entries[j][1]):
                raise Panic("index-oob", "key not found in map", c)
            e = v.entries[j]
            return Ref(lambda: e[2], lambda x: e.__setitem__(2, x), "mapval")
        if isinstance(i, Agg):
            # ranges: Range{start,end} / RangeFrom / RangeTo / RangeFull
            n = len(v.items) if not isinstance(v, StrM) else len(v.bytes)
            lo, hi = 0, n
            if i.ty == "Range":
                lo, hi = i.fields[0], i.fields[1]
            elif i.ty == "RangeFrom":
                lo = i.fields[0]
            elif i.ty == "RangeTo":
                hi = i.fields[0]
            elif i.ty == "RangeInclusive":
                lo, hi = i.fields[0], i.fields[1] + 1
            if is_sym(lo) or is_sym(hi):
                raise Unmodelled("symbolic slice range")
            if lo > hi or hi > n:
                raise Panic("index-oob", "range out of bounds", c)
            if isinstance(v, StrM):
                # str slicing panics unless both ends are char boundaries (not a UTF-8 continuation byte)
                for k in (lo, hi):
                    if 0 < k < n:
                        b = v.bytes[k]
                        cont = (b & 0xC0) == 0x80 if isinstance(b, int) else ((eng.to_bv(b, 8) & 0xC0) == 0x80)
                        if eng.decide(cont):
                            raise Panic("str-boundary", "byte index %d is not a char boundary" % k, c)
                return StrM(v.bytes[lo:hi])
            if isinstance(v, SliceV):
                return SliceV(v.vec, v.lo + lo, v.lo + hi)
            return SliceV(v, lo, hi)
        n = len(v.items)
        if is_sym(i):
            for k in range(n):
                if eng.decide(i == k):
                    return index_ref(v, k)
            raise Panic("index-oob", "index out of bounds", c)
        if not (0 <= i < n):
            raise Panic("index-oob", "index out of bounds", c)
        return index_ref(v, i)

    @model("Vec::extend", "Extend::extend", "Vec::extend_from_slice", "Vec::append")
    def _(eng, a, c):
        tgt = deref(a[0])
        if isinstance(tgt, VecM):
            src = a[1]
            items = drain(eng, to_iter(eng, src))
            if c.endswith("extend_from_slice"):
                items = [vclone(eng, deref(x)) for x in items]
            tgt.items.extend(items)
            if c.endswith("append"):
                deref(a[1]).items.clear()
            return unit()
        if isinstance(tgt, MapM):
            for x in drain(eng, to_iter(eng, a[1])):
                x = deref(x)
                if tgt.is_set():
                    map_insert(eng, tgt, x, unit())
                else:
                    map_insert(eng, tgt, x.fields[0], x.fields[1])
            return unit()
        if isinstance(tgt, StrM):
            for x in drain(eng, to_iter(eng, a[1])):
                x = deref(x)
                tgt.bytes.extend(x.bytes if isinstance(x, StrM) else [x])
            return unit()
        raise Unmodelled("extend on %s" % eng.runtime_type(tgt))

    @model("slice::concat", "Concat::concat")
    def _(eng, a, c):
        out = []
        for x in deref(a[0]).items:
            out += [vclone(eng, y) for y in deref(x).items]
        return VecM(out)

    @model("slice::contains", "Vec::contains")
    def _(eng, a, c):
        return b_or(*[veq(eng, x, a[1]) for x in deref(a[0]).items])

    @model("Vec::dedup")
    def _(eng, a, c):
        v = deref(a[0]); out = []
        for x in v.items:
            if out and eng.decide(veq(eng, out[-1], x)):
                continue
            out.append(x)
        v.items[:] = out
        return unit()

    @model("slice::sort", "Vec::sort", "slice::sort_unstable")
    def _(eng, a, c):
        v = deref(a[0])
        items = v.items
        sort_items(eng, v, lambda x: x)
        return unit()

    def sort_items(eng, v, keyf):
        items = list(v.items)
        keys = [keyf(x) for x in items]
        # concrete keys: ordinary sort; symbolic keys: insertion sort with forked comparisons
        try:
            order = sorted(range(len(items)), key=lambda i: sort_key(keys[i]))
        except Unmodelled:
            order = []
            for i in range(len(items)):
                pos = len(order)
                for j in range(len(order)):
                    if eng.decide(key_lt(eng, keys[i], keys[order[j]])):
                        pos = j; break
                order.insert(pos, i)
        new = [items[i] for i in order]
        if isinstance(v, SliceV):
            v.vec.items[v.lo:v.hi] = new
        else:
            v.items[:] = new

    def key_lt(eng, a, b):
        """strict lexicographic < over ints / tuples / byte vectors (symbolic allowed)"""
        a, b = deref(a), deref(b)
        if isinstance(a, BoxV):
            a = deref(a.v)
        if isinstance(b, BoxV):
            b = deref(b.v)
        if isinstance(a, Agg) and a.ty == "Hash":
            a, b = a.fields[0], b.fields[0]
        if isinstance(a, Agg) and isinstance(b, Agg) and a.vidx != b.vidx:
            return a.vidx < b.vidx
        if isinstance(a, (VecM, SliceV)):
            xs, ys = a.items, b.items
        elif isinstance(a, Agg):
            xs, ys = a.fields, b.fields
        elif isinstance(a, StrM):
            xs, ys = a.bytes, b.bytes
        else:
            if isinstance(a, bool) or isinstance(b, bool) or (is_sym(a) and z3.is_bool(a)):
                return b_and(b_not(a), b)
            if isinstance(a, int) and isinstance(b, int):
                return a < b
            w = a.size() if is_sym(a) else b.size()
            # bytes compare unsigned; wider symbolic integers are the IR's signed i128 / i64
            if w == 8:
                return z3.ULT(eng.to_bv(a, w), eng.to_bv(b, w))
            return eng.to_bv(a, w) < eng.to_bv(b, w)
        res = len(xs) < len(ys)
        for x, y in reversed(list(zip(xs, ys))):
            lt = key_lt(eng, x, y)
            eq = veq(eng, x, y)
            res = b_or(lt, b_and(eq, res))
        return res
    eng.key_lt = key_lt

    @model("slice::sort_by_key", "slice::sort_by_cached_key", "Vec::sort_by_key")
    def _(eng, a, c):
        v = deref(a[0])
        sort_items(eng, v, lambda x: eng.call_callable(a[1], [ref_to_value(x)]))
        return unit()

    @model("slice::sort_by", "slice::sort_unstable_by", "Vec::sort_by")
    def _(eng, a, c):
        v = deref(a[0])
        items = list(v.items)
        order = []
        for i in range(len(items)):
            pos = len(order)
            for j in range(len(order)):
                o = deref(eng.call_callable(a[1], [ref_to_value(items[i]), ref_to_value(items[order[j]])]))
                if o.variant == "Less":
                    pos = j; break
            order.insert(pos, i)
        new = [items[i] for i in order]
        if isinstance(v, SliceV):
            v.vec.items[v.lo:v.hi] = new
        else:
            v.items[:] = new
        return unit()

    @model("slice::sort_unstable_by_key")
    def _(eng, a, c):
        v = deref(a[0])
        sort_items(eng, v, lambda x: eng.call_callable(a[1], [ref_to_value(x)]))
        return unit()

    @model("slice::reverse", "Vec::reverse")
    def _(eng, a, c):
        v = deref(a[0])
        new = list(reversed(v.items))
        if isinstance(v, SliceV):
            v.vec.items[v.lo:v.hi] = new
        else:
            v.items[:] = new
        return unit()

    @model("slice::join", "Join::join")
    def _(eng, a, c):
        v = deref(a[0]); sep = deref(a[1]) if len(a) > 1 else None
        items = [deref(x) for x in v.items] if isinstance(v, (VecM, SliceV)) else None
        if items is not None and all(isinstance(x, StrM) for x in items) and isinstance(sep, StrM):
            out = []
            for i, x in enumerate(items):
                if i:
                    out += list(sep.bytes)
                out += list(x.bytes)
            return StrM(out, True)
        return Opaque("string", [a[0]])

    @model("Vec::remove")
    def _(eng, a, c):
        v = deref(a[0])
        if is_sym(a[1]) or a[1] >= len(v.items):
            raise Panic("index-oob", "removal index out of bounds", c)
        return v.items.pop(a[1])

    @model("Vec::swap_remove")
    def _(eng, a, c):
        # removes element i and puts the last element in its place; panics when i >= len
        v = deref(a[0])
        if is_sym(a[1]):
            raise Unmodelled("swap_remove with a symbolic index")
        if a[1] >= len(v.items):
            raise Panic("index-oob", "swap_remove index (is %d) should be < len (is %d)" % (a[1], len(v.items)), c)
        x = v.items[a[1]]
        last = v.items.pop()
        if a[1] < len(v.items):
            v.items[a[1]] = last
        return x

    @model("Vec::retain")
    def _(eng, a, c):
        v = deref(a[0])
        v.items[:] = [x for x in v.items if eng.decide(eng.call_callable(a[1], [ref_to_value(x)]))]
        return unit()

    @model("Vec::truncate")
    def _(eng, a, c):
        v = deref(a[0]); del v.items[a[1]:]; return unit()

    @model("Vec::clear")
    def _(eng, a, c):
        deref(a[0]).items.clear(); return unit()

    @model("Vec::insert")
    def _(eng, a, c):
        x = deref(a[0])
        if isinstance(x, VecM):
            x.items.insert(a[1], a[2]); return unit()
        raise Unmodelled("insert on " + eng.runtime_type(x))

    @model("Vec::into_iter", "Vec::drain")
    def _(eng, a, c):
        return to_iter(eng, deref(a[0]))

    @model("Vec::into_boxed_slice", "Vec::leak")
    def _(eng, a, c): return a[0]

    @model("slice::copy_from_slice", "slice::clone_from_slice")
    def _(eng, a, c):
        d, s_ = deref(a[0]), deref(a[1])
        if len(d.items) != len(s_.items):
            raise Panic("copy_from_slice", "source slice length (%d) does not match destination slice length (%d)" % (len(s_.items), len(d.items)), c)
        for i, x in enumerate(s_.items):
            if isinstance(d, SliceV):
                d.vec.items[d.lo + i] = x
            else:
                d.items[i] = x
        return unit()

    # ---- IntoIterator / Iterator
    @model("IntoIterator::into_iter", "HashMap::into_iter", "HashSet::into_iter", "BTreeMap::into_iter")
    def _(eng, a, c): return to_iter(eng, a[0])

    @model("HashMap::iter", "BTreeMap::iter")
    def _(eng, a, c): return map_iter(eng, deref(a[0]), "ref")

    @model("HashMap::iter_mut", "BTreeMap::iter_mut")
    def _(eng, a, c): return map_iter(eng, deref(a[0]), "mut")

    @model("HashMap::keys", "BTreeMap::keys", "HashSet::iter", "BTreeSet::iter")
    def _(eng, a, c): return map_iter(eng, deref(a[0]), "keys")

    @model("HashMap::values", "BTreeMap::values", "HashMap::values_mut", "BTreeMap::values_mut")
    def _(eng, a, c): return map_iter(eng, deref(a[0]), "values")

    @model("HashMap::into_values", "BTreeMap::into_values")
    def _(eng, a, c): return map_iter(eng, deref(a[0]), "into_values")

    @model("HashMap::into_keys", "BTreeMap::into_keys")
    def _(eng, a, c): return map_iter(eng, deref(a[0]), "into_keys")

    @model("Iterator::next")
    def _(eng, a, c):
        it = deref(a[0])
        if not isinstance(it, IterM):
            raise Unmodelled("next on %s" % eng.runtime_type(it))
        x = it.nxt(eng)
        return none() if x is STOP else some(x)

    @model("Iterator::map")
    def _(eng, a, c): return it_map(eng, a[0], a[1])

    @model("Iterator::filter")
    def _(eng, a, c): return it_filter(eng, a[0], a[1])

    @model("Iterator::filter_map")
    def _(eng, a, c): return it_filter_map(eng, a[0], a[1])

    @model("Iterator::flat_map")
    def _(eng, a, c): return it_flat_map(eng, a[0], a[1])

    @model("Iterator::flatten")
    def _(eng, a, c): return it_flat_map(eng, a[0], None)

    @model("Iterator::chain")
    def _(eng, a, c): return it_chain(eng, a[0], a[1])

    @model("Iterator::enumerate")
    def _(eng, a, c): return it_enumerate(eng, a[0])

    @model("Iterator::take")
    def _(eng, a, c): return it_take(eng, a[0], a[1])

    @model("Iterator::skip")
    def _(eng, a, c): return it_skip(eng, a[0], a[1])

    @model("Iterator::cloned", "Iterator::copied")
    def _(eng, a, c): return it_cloned(eng, a[0])

    @model("Iterator::zip")
    def _(eng, a, c): return it_zip(eng, a[0], a[1])

    @model("Iterator::rev")
    def _(eng, a, c): return it_rev(eng, a[0])

    @model("Iterator::peekable", "Iterator::by_ref", "Iterator::fuse")
    def _(eng, a, c): return a[0]

    @model("Iterator::collect", "FromIterator::from_iter", "Iterator::try_collect")
    def _(eng, a, c):
        if "from_iter" in c:
            target = eng._self_t
        else:
            m = re.search(r"::collect::<(.*)>$", c.strip(), re.S)
            if not m:
                raise Unmodelled("collect without turbofish: " + c)
            target = m.group(1)
        return collect(eng, to_iter(eng, a[0]), target)

    @model("Iterator::all")
    def _(eng, a, c):
        for x in drain_lazy(eng, a[0]):
            if not eng.decide(eng.call_callable(a[1], [x])):
                return False
        return True

    @model("Iterator::any")
    def _(eng, a, c):
        for x in drain_lazy(eng, a[0]):
            if eng.decide(eng.call_callable(a[1], [x])):
                return True
        return False

    def drain_lazy(eng, it):
        it = deref(it)
        while True:
            x = it.nxt(eng)
            if x is STOP:
                return
            yield x

    @model("Iterator::find")
    def _(eng, a, c):
        for x in drain_lazy(eng, a[0]):
            if eng.decide(eng.call_callable(a[1], [ref_to_value(x)])):
                return some(x)
        return none()

    @model("Iterator::find_map")
    def _(eng, a, c):
        for x in drain_lazy(eng, a[0]):
            r = deref(eng.call_callable(a[1], [x]))
            if r.variant == "Some":
                return r
        return none()

    @model("Iterator::position")
    def _(eng, a, c):
        for i, x in enumerate(drain_lazy(eng, a[0])):
            if eng.decide(eng.call_callable(a[1], [x])):
                return some(i)
        return none()

    @model("Iterator::fold")
    def _(eng, a, c):
        acc = a[1]
        for x in drain_lazy(eng, a[0]):
            acc = eng.call_callable(a[2], [acc, x])
        return acc

    @model("Iterator::try_fold")
    def _(eng, a, c):
        acc = a[1]
        for x in drain_lazy(eng, a[0]):
            r = deref(eng.call_callable(a[2], [acc, x]))
            if r.variant in ("Err", "None", "Break"):
                return r
            acc = r.fields[0]
        return ok(acc)

    @model("Iterator::for_each")
    def _(eng, a, c):
        for x in drain_lazy(eng, a[0]):
            eng.call_callable(a[1], [x])
        return unit()

    @model("Iterator::partition")
    def _(eng, a, c):
        yes, no = [], []
        for x in drain_lazy(eng, a[0]):
            (yes if eng.decide(eng.call_callable(a[1], [ref_to_value(x)])) else no).append(x)
        m = re.search(r"::partition::<(.*)>$", c.strip(), re.S)
        from mirparse import split_top
        target = split_top(m.group(1))[0] if m else "Vec<_>"
        return tup(collect(eng, list_iter(yes, False), target), collect(eng, list_iter(no, False), target))

    @model("Iterator::unzip")
    def _(eng, a, c):
        xs, ys = [], []
        for p in drain_lazy(eng, a[0]):
            p = deref(p)
            xs.append(p.fields[0]); ys.append(p.fields[1])
        return tup(VecM(xs), VecM(ys))

    @model("Iterator::count")
    def _(eng, a, c): return len(drain(eng, a[0]))

    @model("Iterator::last")
    def _(eng, a, c):
        xs = drain(eng, a[0])
        return some(xs[-1]) if xs else none()

    @model("Iterator::nth")
    def _(eng, a, c):
        xs = drain(eng, a[0])
        return some(xs[a[1]]) if a[1] < len(xs) else none()

    @model("Iterator::sum")
    def _(eng, a, c):
        import engine as E
        m = re.search(r"::sum::<(.*)>$", c.strip())
        ty = m.group(1) if m else "i128"
        acc = 0
        for x in drain_lazy(eng, a[0]):
            r = eng.binop("AddWithOverflow", acc, deref(x), ty)
            if eng.decide(r.fields[1]):
                raise Panic("overflow", "attempt to add with overflow (Iterator::sum)", c)
            acc = r.fields[0]
        return acc

    @model("Iterator::max_by_key", "Iterator::min_by_key")
    def _(eng, a, c):
        xs = drain(eng, a[0])
        if not xs:
            return none()
        best, bk = xs[0], eng.call_callable(a[1], [ref_to_value(xs[0])])
        for x in xs[1:]:
            k = eng.call_callable(a[1], [ref_to_value(x)])
            lt = key_lt(eng, bk, k) if "max" in c else key_lt(eng, k, bk)
            ge = b_or(lt, veq(eng, bk, k)) if "max" in c else lt
            if eng.decide(ge):
                best, bk = x, k
        return some(best)

    @model("Iterator::size_hint")
    def _(eng, a, c): return tup(0, none())

    @model("iter::once")
    def _(eng, a, c): return list_iter([a[0]], False)

    @model("iter::empty")
    def _(eng, a, c): return list_iter([], False)

    # ---- maps
    @model("HashMap::new", "BTreeMap::new", "HashSet::new", "BTreeSet::new", "HashMap::with_capacity", "HashSet::with_capacity", "HashMap::default")
    def _(eng, a, c):
        m = re.search(r"(HashMap|BTreeMap|HashSet|BTreeSet)", c)
        return MapM(m.group(1))

    @model("From::from@HashMap", "From::from@BTreeMap", "From::from@HashSet", "From::from@BTreeSet")
    def _(eng, a, c):
        kind = strip_generics(eng._self_t)
        return collect(eng, list_iter(list(deref(a[0]).items), False), kind)

    @model("HashSet::from_iter", "HashMap::from_iter", "BTreeMap::from_iter", "BTreeSet::from_iter")
    def _(eng, a, c):
        kind = re.search(r"(HashMap|BTreeMap|HashSet|BTreeSet)", c).group(1)
        return collect(eng, to_iter(eng, a[0]), kind)

    @model("HashMap::get", "BTreeMap::get", "HashMap::get_mut", "BTreeMap::get_mut", "HashSet::get")
    def _(eng, a, c):
        m = deref(a[0])
        i = map_find(eng, m, deref(a[1]))
        if i is None or not eng.decide(m.entries[i][1]):
            return none()
        e = m.entries[i]
        if m.is_set():
            return some(Ref(lambda: e[0], None, "setelem"))
        return some(Ref(lambda: e[2], lambda x: e.__setitem__(2, x), "mapval"))

    @model("HashMap::contains_key", "BTreeMap::contains_key", "HashSet::contains", "BTreeSet::contains")
    def _(eng, a, c):
        m = deref(a[0])
        i = map_find(eng, m, deref(a[1]))
        return False if i is None else m.entries[i][1]

    @model("HashMap::insert", "BTreeMap::insert")
    def _(eng, a, c): return map_insert(eng, deref(a[0]), a[1], a[2])

    @model("HashSet::insert", "BTreeSet::insert")
    def _(eng, a, c):
        m = deref(a[0])
        i = map_find(eng, m, a[1])
        if i is None:
            m.entries.append([a[1], True, unit()]); return True
        was = m.entries[i][1]
        m.entries[i][1] = True
        return b_not(was)

    @model("HashMap::clear", "BTreeMap::clear", "HashSet::clear", "BTreeSet::clear")
    def _(eng, a, c):
        deref(a[0]).entries.clear()
        return unit()

    @model("HashMap::remove", "BTreeMap::remove")
    def _(eng, a, c):
        m = deref(a[0])
        i = map_find(eng, m, deref(a[1]))
        if i is None or not eng.decide(m.entries[i][1]):
            return none()
        m.entries[i][1] = False
        return some(m.entries[i][2])

    @model("HashSet::remove", "BTreeSet::remove")
    def _(eng, a, c):
        m = deref(a[0])
        i = map_find(eng, m, deref(a[1]))
        if i is None:
            return False
        was = m.entries[i][1]
        m.entries[i][1] = False
        return was

    @model("HashMap::len", "BTreeMap::len", "HashSet::len", "BTreeSet::len")
    def _(eng, a, c): return map_len(eng, deref(a[0]))

    @model("HashMap::is_empty", "BTreeMap::is_empty", "HashSet::is_empty", "BTreeSet::is_empty")
    def _(eng, a, c): return b_not(b_or(*[p for _, p, _ in deref(a[0]).entries]))

    @model("HashMap::retain", "BTreeMap::retain")
    def _(eng, a, c):
        m = deref(a[0])
        for e in m.entries:
            if e[1] is False:
                continue
            keep = eng.call_callable(a[1], [Ref(lambda e=e: e[0], None, "k"), Ref(lambda e=e: e[2], lambda x, e=e: e.__setitem__(2, x), "v")])
            e[1] = b_and(e[1], keep)
        return unit()

    @model("HashSet::retain")
    def _(eng, a, c):
        m = deref(a[0])
        for e in m.entries:
            if e[1] is False:
                continue
            keep = eng.call_callable(a[1], [Ref(lambda e=e: e[0], None, "k")])
            e[1] = b_and(e[1], keep)
        return unit()

    @model("HashMap::entry", "BTreeMap::entry")
    def _(eng, a, c):
        m = deref(a[0])
        i = map_find(eng, m, a[1])
        if i is None:
            m.entries.append([a[1], False, None])
            i = len(m.entries) - 1
        e = m.entries[i]
        # variant order differs: hash_map::Entry { Occupied, Vacant }, btree_map::Entry { Vacant, Occupied }
        occ_idx, vac_idx = (1, 0) if m.ordered() else (0, 1)
        if eng.decide(e[1]):
            return Agg("Entry", "Occupied", occ_idx, [Agg("OccupiedEntry", None, 0, [m, i])])
        return Agg("Entry", "Vacant", vac_idx, [Agg("VacantEntry", None, 0, [m, i])])

    def entry_slot(ent):
        m, i = ent.fields[0].fields
        return m.entries[i]

    @model("Entry::or_default", "Entry::or_insert", "Entry::or_insert_with")
    def _(eng, a, c):
        ent = deref(a[0]); e = entry_slot(ent)
        if ent.variant == "Vacant":
            e[1] = True
            if c.endswith("or_default") or "or_default" in c:
                m = re.search(r"Entry::<(.*)>::or_default", c, re.S)
                from mirparse import split_top
                vt = split_top(m.group(1))[-1].strip() if m else "i128"
                e[2] = 0 if vt in ("i128", "u64", "i64", "usize", "u128", "u32", "i32") else default_named(eng, vt)
            elif "or_insert_with" in c:
                e[2] = eng.call_callable(a[1], [])
            else:
                e[2] = a[1]
        return Ref(lambda: e[2], lambda x: e.__setitem__(2, x), "mapval")

    def default_named(eng, t):
        b = strip_generics(t)
        if b == "Vec":
            return VecM([])
        if b in ("HashMap", "BTreeMap", "HashSet", "BTreeSet"):
            return MapM(b)
        raise Unmodelled("default of " + t)

    @model("OccupiedEntry::get", "OccupiedEntry::get_mut", "OccupiedEntry::into_mut")
    def _(eng, a, c):
        e = entry_of(a[0])
        return Ref(lambda: e[2], lambda x: e.__setitem__(2, x), "mapval")

    def entry_of(x):
        x = deref(x)
        m, i = x.fields
        return m.entries[i]

    @model("OccupiedEntry::insert")
    def _(eng, a, c):
        e = entry_of(a[0]); old = e[2]; e[2] = a[1]; return old

    @model("OccupiedEntry::remove")
    def _(eng, a, c):
        e = entry_of(a[0]); e[1] = False; return e[2]

    @model("VacantEntry::insert")
    def _(eng, a, c):
        e = entry_of(a[0]); e[1] = True; e[2] = a[1]
        return Ref(lambda: e[2], lambda x: e.__setitem__(2, x), "mapval")

    @model("HashSet::union", "BTreeSet::union", "HashSet::intersection", "BTreeSet::intersection", "HashSet::difference", "BTreeSet::difference")
    def _(eng, a, c):
        x, y = deref(a[0]), deref(a[1])
        out = MapM(x.kind)
        op = "union" if "union" in c else ("intersection" if "intersection" in c else "difference")
        for k, p, _ in x.entries:
            j = map_find(eng, y, k)
            q = y.entries[j][1] if j is not None else False
            pres = {"union": b_or(p, q), "intersection": b_and(p, q), "difference": b_and(p, b_not(q))}[op]
            out.entries.append([k, pres, unit()])
        if op == "union":
            for k, q, _ in y.entries:
                if map_find_noforks(eng, x, k) is None:
                    out.entries.append([k, q, unit()])
        return map_iter(eng, out, "keys")

    def map_find_noforks(eng, m, key):
        for i, (k, p, v) in enumerate(m.entries):
            e = veq(eng, k, key)
            if e is True:
                return i
            if e is not False:
                raise Unmodelled("symbolic key comparison in set operation")
        return None

    @model("HashSet::is_subset", "BTreeSet::is_subset")
    def _(eng, a, c):
        x, y = deref(a[0]), deref(a[1])
        conds = []
        for k, p, _ in x.entries:
            j = map_find_noforks(eng, y, k)
            q = y.entries[j][1] if j is not None else False
            conds.append(b_or(b_not(p), q))
        return b_and(*conds)

    @model("BTreeMap::first_key_value", "BTreeMap::last_key_value")
    def _(eng, a, c):
        m = deref(a[0])
        order = map_iter_order(eng, m)
        if "last" in c:
            order = list(reversed(order))
        for i in order:
            e = m.entries[i]
            if eng.decide(e[1]):
                return some(tup(Ref(lambda e=e: e[0], None, "k"), Ref(lambda e=e: e[2], None, "v")))
        return none()

    # ---- futures: every coroutine runs start-to-finish in one poll (Pending is outside every claim)
    @model("IntoFuture::into_future")
    def _(eng, a, c): return a[0]

    @model("Pin::new_unchecked", "Pin::new")
    def _(eng, a, c): return Agg("Pin", None, 0, [a[0]])

    @model("Pin::as_mut", "Pin::get_mut", "Pin::get_unchecked_mut", "Pin::into_inner")
    def _(eng, a, c):
        x = deref(a[0]) if isinstance(a[0], Ref) else a[0]
        return x if "as_mut" in c else x.fields[0]

    @model("Future::poll")
    def _(eng, a, c):
        pin = a[0]
        target = deref(pin.fields[0]) if isinstance(pin, Agg) else deref(pin)
        if isinstance(target, BoxV):
            target = deref(target.v)
        if isinstance(target, ReadyFuture):
            return Agg("Poll", "Ready", 0, [target.v])
        if isinstance(target, Coroutine):
            fn = eng.fns.get(target.poll_fn)
            if fn is None:
                raise Unmodelled("poll function %s not in the dump" % target.poll_fn)
            r = eng.call_fn(fn, [Agg("Pin", None, 0, [ref_to_value(target)]), a[1]])
            if deref(r).variant == "Pending":
                raise Unmodelled("a future returned Pending (outside every claim)")
            return r
        raise Unmodelled("poll of %s" % eng.runtime_type(target))

    # ---- misc
    @model("mem::take")
    def _(eng, a, c):
        r = a[0]; old = r.get()
        if isinstance(old, VecM):
            r.set(VecM([]))
        elif isinstance(old, MapM):
            r.set(MapM(old.kind))
        elif isinstance(old, StrM):
            r.set(StrM([], True))
        elif isinstance(old, Agg) and old.ty == "Option":
            r.set(none())
        else:
            raise Unmodelled("mem::take of %s" % eng.runtime_type(old))
        return old

    @model("mem::replace")
    def _(eng, a, c):
        old = a[0].get(); a[0].set(a[1]); return old

    @model("mem::swap")
    def _(eng, a, c):
        x, y = a[0].get(), a[1].get(); a[0].set(y); a[1].set(x); return unit()

    @model("mem::drop", "mem::forget", "Drop::drop", "ptr::drop_in_place")
    def _(eng, a, c): return unit()

    @model("i128::checked_add", "i128::checked_sub", "i128::checked_neg", "i64::checked_add", "u64::checked_add", "u64::checked_sub",
           "i128::checked_mul", "u64::checked_mul", "usize::checked_add", "usize::checked_sub", "i64::checked_neg", "i64::checked_sub")
    def _(eng, a, c):
        m = re.search(r"([iu](?:\d+|size))>?::checked_(\w+)", c)
        ty, op = m.group(1), m.group(2)
        if op == "neg":
            r = eng.binop("SubWithOverflow", 0, a[0], ty)
        else:
            r = eng.binop({"add": "AddWithOverflow", "sub": "SubWithOverflow", "mul": "MulWithOverflow"}[op], a[0], a[1], ty)
        if eng.decide(r.fields[1]):
            return none()
        return some(r.fields[0])

    @model("i128::abs", "i64::abs")
    def _(eng, a, c):
        x = a[0]
        if isinstance(x, int):
            return abs(x)
        return z3.If(x < 0, -x, x)

    @model("i128::unsigned_abs")
    def _(eng, a, c):
        x = a[0]
        if isinstance(x, int):
            return abs(x)
        return z3.If(x < 0, -x, x)

    @model("i128::to_be_bytes", "u128::to_be_bytes", "u64::to_be_bytes", "u32::to_be_bytes")
    def _(eng, a, c):
        import engine as E
        ty = re.search(r"([iu](?:\d+|size))>?::to_be_bytes", c).group(1)
        w, _ = E.INT[ty]
        x = a[0]
        if isinstance(x, int):
            return VecM(list((x & ((1 << w) - 1)).to_bytes(w // 8, "big")), "array")
        return VecM([z3.Extract(w - 1 - 8 * i, w - 8 - 8 * i, x) for i in range(w // 8)], "array")

    @model("i128::from_be_bytes", "u128::from_be_bytes", "u64::from_be_bytes", "u32::from_be_bytes")
    def _(eng, a, c):
        import engine as E
        ty = re.search(r"([iu](?:\d+|size))>?::from_be_bytes", c).group(1)
        w, sg = E.INT[ty]
        bs = deref(a[0]).items
        if all(isinstance(b, int) for b in bs):
            return E.wrap(int.from_bytes(bytes(bs), "big"), w, sg)
        return z3.Concat(*[eng.to_bv(b, 8) for b in bs])
