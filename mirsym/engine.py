"""mirsym — symbolic execution of rustc MIR into SMT (engine M, DESIGN.md §1.2).

The thing interpreted is the compiler's own lowering of the repository's functions, dumped
from /repo's current working tree on every run.  Standard-library calls are models
(models.py); anything neither in the dump nor in the model table stops the run with
`Unmodelled` = inconclusive — never "holds", never a violation."""
import re, time, copy, os, sys
import z3
from values import *
import mirparse
from mirparse import split_top, strip_generics

INT = {"i8": (8, True), "i16": (16, True), "i32": (32, True), "i64": (64, True), "i128": (128, True), "isize": (64, True),
       "u8": (8, False), "u16": (16, False), "u32": (32, False), "u64": (64, False), "u128": (128, False), "usize": (64, False),
       "char": (32, False)}

BUILTIN_ENUMS = {
    "Option": ["None", "Some"], "Result": ["Ok", "Err"], "ControlFlow": ["Continue", "Break"],
    "Poll": ["Ready", "Pending"], "Ordering": ["Less", "Equal", "Greater"], "Cow": ["Borrowed", "Owned"],
    "Entry": ["Occupied", "Vacant"], "Bound": ["Included", "Excluded", "Unbounded"],
}
ORDERING_DISCR = {"Less": -1, "Equal": 0, "Greater": 1}


def wrap(v, w, signed):
    v &= (1 << w) - 1
    if signed and v >> (w - 1):
        v -= 1 << w
    return v


def int_type(t):
    t = t.strip()
    return INT.get(t)


def pointee(t):
    t = t.strip()
    for p in ("&mut ", "&'_ mut ", "&", "*const ", "*mut "):
        if t.startswith(p):
            t = t[len(p):].strip()
            t = re.sub(r"^'\w+ (mut )?", "", t)
            return t
    m = re.match(r"(?:std::boxed::|alloc::boxed::)?Box<(.*)>$", t)
    if m:
        return m.group(1)
    return t


class RawBox:
    """`Box::new_uninit()` of the `vec![..]` expansion: projections see through it"""
    __slots__ = ("v",)

    def __init__(s):
        s.v = None


class Frame:
    __slots__ = ("fn", "locals", "tparams")

    def __init__(s, fn):
        s.fn, s.locals, s.tparams = fn, {}, {}


class Stats:
    def __init__(s):
        s.paths = s.decisions = s.queries = s.obligations = s.discharged = s.panic_paths = s.steps = s.pruned = 0
        s.solver_s = 0.0
        s.fns_executed = {}
        s.models_used = {}
        s.xchecked = s.xagree = s.xtimeout = 0      # obligations re-decided by cvc5
        s.xdisagree = []


class Engine:
    def __init__(s, mir_files, max_steps=400000):
        s.fns = {}
        for crate, path in mir_files.items():
            s.fns.update(mirparse.parse_mir(open(path).read(), crate))
        s.typedefs = {k: list(v) for k, v in mirparse.typedefs().items()}
        s.repo_types = set(s.typedefs)
        foreign = []
        if "tx3-cardano" in mir_files:
            foreign += ["pallas-primitives", "pallas-codec", "pallas-addresses", "pallas-crypto"]
        if "tx3-resolver" in mir_files or "tx3c" in mir_files:
            foreign += ["serde_json"]
        if foreign:
            for c in foreign:
                for name, defs in mirparse.foreign_crate_types(c).items():
                    if name in s.repo_types:
                        continue
                    s.typedefs.setdefault(name, []).extend(defs)
        s.max_steps = max_steps
        s.stats = Stats()
        s.solver = z3.Solver()
        s.models = {}
        s._index()
        s.map_order = "fixed"
        s.trace = os.environ.get("MIRSYM_TRACE") == "1"
        s.fresh_n = 0
        s.pc = []
        s.opaque_terms = {}
        s.overrides = {}
        s.cur_model = None
        s._last_model = None
        s._trait_cache = {}
        s._callee_cache = {}
        s._fnmod_cache = {}
        import models, models_pallas, models_str
        models.register(s)
        models_pallas.register(s)
        models_str.register(s)

    # ------------------------------------------------------------------ indices
    def _index(s):
        s.closures = {}       # span -> Fn
        s.impls = []          # (trait, trait_generics, self_ty, blanket, bounds, {method: Fn})
        s.by_short = {}       # "Type::method" / "module::fn" -> [Fn]
        s.trait_defaults = {}  # (Trait, method) -> Fn
        impl_by_span = {}
        for name, f in s.fns.items():
            if f.is_const:
                continue
            # closures: `...::{closure#k}`: first parameter mentions {closure@SPAN}
            if re.search(r"\{closure#\d+\}$", name) and f.args:
                m = re.search(r"\{(?:closure|coroutine|async (?:fn body|block|closure body)[^@]*)@([^}]*)\}", f.args[0][1])
                if m:
                    s.closures[m.group(1)] = f
                continue
            if f.impl_span and name.count("<impl at") == 1 and "{closure" not in name:
                method = name.split(">::", 1)[1] if ">::" in name else None
                if method is None or "::" in method:
                    continue
                key = f.impl_span
                if key not in impl_by_span:
                    h = mirparse.impl_header(*key)
                    if h is None and method == "from" and len(f.args) == 1:
                        # thiserror's `#[from]`: `impl From<FieldType> for ErrorEnum`
                        h = ("From", f.args[0][1], f.ret, False, "")
                    if h is None:
                        continue
                    stem = os.path.basename(key[0])[:-3]
                    if stem == "mod":
                        stem = os.path.basename(os.path.dirname(key[0]))
                    elif stem in ("lib", "main"):
                        stem = os.path.basename(os.path.dirname(os.path.dirname(key[0]))).replace("-", "_")
                    rec = [h[0], h[1], h[2], h[3], h[4], {}, s.canon_type(h[2], stem), stem]
                    impl_by_span[key] = rec
                    s.impls.append(rec)
                impl_by_span[key][5][method] = f
                rec = impl_by_span[key]
                if rec[0] is None:
                    s.by_short.setdefault("%s::%s" % (strip_generics(rec[2]), method), []).append(f)
                    if rec[6] != strip_generics(rec[2]):
                        s.by_short.setdefault("%s::%s" % (rec[6], method), []).append(f)
            elif "<impl at" not in name and "{closure" not in name:
                segs = name.split("::")
                if len(segs) >= 2:
                    s.by_short.setdefault("::".join(segs[-2:]), []).append(f)
                s.by_short.setdefault(segs[-1], []).append(f)
                # trait default methods appear as module::Trait::method
                if len(segs) >= 2 and segs[-2][:1].isupper():
                    s.trait_defaults[(segs[-2], segs[-1])] = f

    def impl_self_text(s, fn):
        for rec in s.impls:
            if fn in rec[5].values():
                return rec[2]
        return ""

    def fn_module(s, fn):
        m = s._fnmod_cache.get(fn.name)
        if m is None:
            m = s._fn_module(fn) or ""
            s._fnmod_cache[fn.name] = m
        return m or None

    def _fn_module(s, fn):
        """module (file stem) a MIR function was defined in"""
        if fn.impl_span:
            f = fn.impl_span[0]
        else:
            m = re.search(r"\{closure@([^:]+):", fn.name)
            f = m.group(1) if m else None
        if f:
            stem = os.path.basename(f)[:-3]
            if stem == "mod":
                stem = os.path.basename(os.path.dirname(f))
            elif stem in ("lib", "main"):
                stem = os.path.basename(os.path.dirname(os.path.dirname(f))).replace("-", "_")
            return stem
        segs = fn.name.split("::")
        return segs[-2] if len(segs) >= 2 else None

    def find(s, short=None, trait=None, self_ty=None, method=None, trait_generics=None):
        """look up a function of the dump: by `Type::method` / `module::fn`, or by impl"""
        if short:
            c = s.by_short.get(short, [])
            if len(c) == 1:
                return c[0]
            if not c:
                raise Unmodelled("no function %s in the dump" % short)
            raise Unmodelled("ambiguous function %s: %s" % (short, [f.name for f in c]))
        c = []
        for t, tg, ty, bl, bounds, methods, cself, mod in s.impls:
            if t == trait and (cself == self_ty or strip_generics(ty) == self_ty) and method in methods:
                if trait_generics is None or strip_generics(tg) == trait_generics or tg == trait_generics:
                    c.append(methods[method])
        if len(c) == 1:
            return c[0]
        raise Unmodelled("impl %s for %s :: %s -> %d candidates" % (trait, self_ty, method, len(c)))

    # ------------------------------------------------------------------ search
    def block_on(s, fut):
        """drive a future (coroutine object of the dump, or a ready future) to completion"""
        import models
        r = s.models["Future::poll"](s, [Agg("Pin", None, 0, [ref_to_value(fut)]), Opaque("Context")], "block_on")
        return models.deref(r).fields[0]

    def run(s, harness, max_paths=20000, time_limit=None):
        """depth-first exploration with re-execution from a recorded decision trail"""
        s.trail = []
        t0 = time.time()
        while True:
            s.pos = 0
            s.pc = []
            s.cur_model = None
            s.solver.push()
            s.steps = 0
            try:
                harness(s)
                s.stats.paths += 1
            except Infeasible:
                s.stats.pruned += 1
            finally:
                s.solver.pop()
            # backtrack: find last decision with an unexplored alternative
            while s.trail and not s.trail[-1][1]:
                s.trail.pop()
            if not s.trail:
                break
            v, alts = s.trail[-1]
            s.trail[-1] = (alts[0], alts[1:])
            if s.stats.paths >= max_paths:
                raise StepLimit("path bound %d reached" % max_paths)
            if time_limit and time.time() - t0 > time_limit:
                raise StepLimit("time limit %ds reached after %d paths" % (time_limit, s.stats.paths))

    def _sat(s, *extra):
        t0 = time.time()
        r = s.solver.check(*extra)
        s.stats.solver_s += time.time() - t0
        s.stats.queries += 1
        if r == z3.unknown:
            raise Unmodelled("solver returned unknown")
        if r == z3.sat:
            s._last_model = s.solver.model()
        return r == z3.sat

    def _add_pc(s, c, keeps_model=False):
        s.pc.append(c)
        s.solver.add(c)
        if not keeps_model:
            s.cur_model = None

    def _model_says(s, cond):
        """value of cond under the cached model of the current path condition (or None)"""
        if s.cur_model is None:
            return None
        v = s.cur_model.eval(cond, model_completion=True)
        if z3.is_true(v):
            return True
        if z3.is_false(v):
            return False
        return None

    def decide(s, cond):
        """branch on a (possibly symbolic) boolean; both sides explored when feasible"""
        if isinstance(cond, bool):
            return cond
        cond = z3.simplify(cond)
        if z3.is_true(cond):
            return True
        if z3.is_false(cond):
            return False
        if s.pos < len(s.trail):
            v = s.trail[s.pos][0]
            s.pos += 1
            s._add_pc(cond if v else z3.Not(cond))
            return v
        # a model of the current path condition decides one side for free
        known = s._model_says(cond)
        if known is None:
            if not s._sat():
                raise Infeasible()
            s.cur_model = s._last_model
            known = s._model_says(cond)
        if known is None:
            t_ok = s._sat(cond); tm = s._last_model if t_ok else None
            f_ok = s._sat(z3.Not(cond)); fm = s._last_model if f_ok else None
        elif known:
            t_ok, tm = True, s.cur_model
            f_ok = s._sat(z3.Not(cond)); fm = s._last_model if f_ok else None
        else:
            f_ok, fm = True, s.cur_model
            t_ok = s._sat(cond); tm = s._last_model if t_ok else None
        s.stats.decisions += 1
        if t_ok and f_ok:
            s.trail.append((True, [False])); s.pos += 1
            s._add_pc(cond, True); s.cur_model = tm
            return True
        if t_ok:
            s.trail.append((True, [])); s.pos += 1
            s._add_pc(cond, True); s.cur_model = tm
            return True
        if f_ok:
            s.trail.append((False, [])); s.pos += 1
            s._add_pc(z3.Not(cond), True); s.cur_model = fm
            return False
        raise Infeasible()

    def choose(s, n, what=""):
        """nondeterministic choice among n concrete alternatives (all explored)"""
        if n <= 1:
            return 0
        if s.pos < len(s.trail):
            v = s.trail[s.pos][0]
            s.pos += 1
            return v
        s.trail.append((0, list(range(1, n)))); s.pos += 1
        s.stats.decisions += 1
        return 0

    def assume(s, cond):
        if cond is True:
            return
        if cond is False:
            raise Infeasible()
        ms = s._model_says(cond) if not isinstance(cond, bool) else None
        if ms is True:
            s._add_pc(cond, True)
            return
        s._add_pc(cond)
        if not s._sat():
            raise Infeasible()
        s.cur_model = s._last_model

    def feasible(s, cond):
        if isinstance(cond, bool):
            return cond
        return s._sat(cond)

    def check(s, cond, name):
        """obligation: under the current path condition `cond` must hold.  Returns None if
        discharged, else a z3 model (counterexample)."""
        s.stats.obligations += 1
        if cond is True:
            s.stats.discharged += 1
            return None
        neg = z3.BoolVal(True) if cond is False else z3.Not(cond)
        sat = s._sat(neg)
        s._cross_check(neg, sat, name)
        if sat:
            return s.solver.model()
        s.stats.discharged += 1
        return None

    XCHECK_EVERY = int(os.environ.get("MIRSYM_XCHECK_EVERY", "40"))
    XCHECK_MAX = int(os.environ.get("MIRSYM_XCHECK_MAX", "12"))

    def _cross_check(s, neg, z3_sat, name):
        """second opinion on the deciding step: every XCHECK_EVERY-th solver-decided obligation
        (at most XCHECK_MAX per harness) is exported as SMT-LIB2 and decided again by cvc5"""
        st = s.stats
        st.xseen = getattr(st, "xseen", 0) + 1
        if s.XCHECK_EVERY <= 0 or st.xchecked >= s.XCHECK_MAX or (st.xseen % s.XCHECK_EVERY) != 1:
            return
        import subprocess, tempfile
        s.solver.push()
        try:
            s.solver.add(neg)
            text = "(set-logic ALL)\n" + s.solver.to_smt2()
        finally:
            s.solver.pop()
        if re.search(r"bv[us]mul_no(?:ovfl|udfl)|bvsdiv_noovfl|bvneg_noovfl", text):
            # z3-only overflow predicates: not SMT-LIB, cvc5 1.0 cannot parse them; try the next one
            st.xseen -= 1
            st.xskipped = getattr(st, "xskipped", 0) + 1
            return
        try:
            with tempfile.NamedTemporaryFile("w", suffix=".smt2", delete=False) as fh:
                fh.write(text)
            p = subprocess.run(["cvc5", "--lang", "smt2", "--tlimit", "8000", fh.name], capture_output=True, text=True, timeout=20)
            out = (p.stdout + p.stderr).strip().split("\n")
            ans = out[0].strip() if out else ""
        except Exception as e:
            ans = "error: %s" % e
        finally:
            try:
                os.unlink(fh.name)
            except Exception:
                pass
        st.xchecked += 1
        if ans in ("sat", "unsat"):
            if (ans == "sat") == bool(z3_sat):
                st.xagree += 1
            else:
                st.xdisagree.append("%s: z3 %s, cvc5 %s" % (name[:80], "sat" if z3_sat else "unsat", ans))
        else:
            st.xtimeout += 1

    def fresh_int(s, name, ty):
        w, _ = INT[ty]
        return z3.BitVec(name, w)

    def fresh_bool(s, name):
        return z3.Bool(name)

    # ------------------------------------------------------------------ integer ops
    def to_bv(s, v, w):
        if isinstance(v, bool):
            return z3.BitVecVal(1 if v else 0, w)
        if isinstance(v, int):
            return z3.BitVecVal(v, w)
        if z3.is_bool(v):
            return z3.If(v, z3.BitVecVal(1, w), z3.BitVecVal(0, w))
        return v

    def binop(s, op, a, b, ty):
        it = int_type(ty)
        if ty == "bool" or (isinstance(a, bool) or (is_sym(a) and z3.is_bool(a))):
            # boolean operands
            if not is_sym(a) and not is_sym(b):
                return {"Eq": a == b, "Ne": a != b, "BitAnd": a and b, "BitOr": a or b, "BitXor": a != b,
                        "Lt": (not a) and b, "Le": (not a) or b, "Gt": a and not b, "Ge": a or not b}[op]
            A = z3.BoolVal(a) if isinstance(a, bool) else a
            B = z3.BoolVal(b) if isinstance(b, bool) else b
            if op == "Eq":
                return A == B
            if op in ("Ne", "BitXor"):
                return z3.Xor(A, B)
            if op == "BitAnd":
                return z3.And(A, B)
            if op == "BitOr":
                return z3.Or(A, B)
            raise Unmodelled("bool binop " + op)
        if it is None:
            if op in ("Eq", "Ne"):
                import models
                e = models.veq(s, a, b)
                return e if op == "Eq" else b_not(e)
            raise Unmodelled("binop %s on type %s" % (op, ty))
        w, sg = it
        base = op.replace("WithOverflow", "").replace("Unchecked", "")
        if isinstance(a, int) and isinstance(b, int):
            if base in ("Shl", "Shr"):
                b2 = b % w
                exact = (a << b2) if base == "Shl" else (a >> b2)
            elif base in ("Div", "Rem"):
                if b == 0:
                    raise Panic("div-by-zero", "attempt to divide by zero")
                q = abs(a) // abs(b)
                if (a < 0) != (b < 0):
                    q = -q
                exact = q if base == "Div" else a - q * b
            else:
                exact = {"Add": lambda: a + b, "Sub": lambda: a - b, "Mul": lambda: a * b,
                         "BitAnd": lambda: a & b, "BitOr": lambda: a | b, "BitXor": lambda: a ^ b,
                         "Eq": lambda: a == b, "Ne": lambda: a != b, "Lt": lambda: a < b, "Le": lambda: a <= b,
                         "Gt": lambda: a > b, "Ge": lambda: a >= b,
                         "Cmp": lambda: (a > b) - (a < b)}[base]()
            if base in ("Eq", "Ne", "Lt", "Le", "Gt", "Ge"):
                return exact
            if base == "Cmp":
                return s.mk_ordering(exact)
            r = wrap(exact, w, sg)
            if op.endswith("WithOverflow"):
                return tup(r, r != exact)
            return r
        A, B = s.to_bv(a, w), s.to_bv(b, w)
        if base == "Add":
            r = A + B
            if op.endswith("WithOverflow"):
                ovf = z3.Not(z3.And(z3.BVAddNoOverflow(A, B, sg), z3.BVAddNoUnderflow(A, B))) if sg else z3.Not(z3.BVAddNoOverflow(A, B, False))
                return tup(r, ovf)
            return r
        if base == "Sub":
            r = A - B
            if op.endswith("WithOverflow"):
                ovf = z3.Not(z3.And(z3.BVSubNoOverflow(A, B), z3.BVSubNoUnderflow(A, B, sg))) if sg else z3.ULT(A, B)
                return tup(r, ovf)
            return r
        if base == "Mul":
            r = A * B
            if op.endswith("WithOverflow"):
                ovf = z3.Not(z3.And(z3.BVMulNoOverflow(A, B, sg), z3.BVMulNoUnderflow(A, B))) if sg else z3.Not(z3.BVMulNoOverflow(A, B, False))
                return tup(r, ovf)
            return r
        if base == "Div":
            if s.decide(B == 0):
                raise Panic("div-by-zero", "attempt to divide by zero")
            return (A / B) if sg else z3.UDiv(A, B)
        if base == "Rem":
            if s.decide(B == 0):
                raise Panic("div-by-zero", "attempt to calculate the remainder with a divisor of zero")
            return z3.SRem(A, B) if sg else z3.URem(A, B)
        if base == "BitAnd":
            return A & B
        if base == "BitOr":
            return A | B
        if base == "BitXor":
            return A ^ B
        if base == "Shl":
            return A << B
        if base == "Shr":
            return (A >> B) if sg else z3.LShR(A, B)
        if base == "Eq":
            return A == B
        if base == "Ne":
            return A != B
        if base == "Lt":
            return (A < B) if sg else z3.ULT(A, B)
        if base == "Le":
            return (A <= B) if sg else z3.ULE(A, B)
        if base == "Gt":
            return (A > B) if sg else z3.UGT(A, B)
        if base == "Ge":
            return (A >= B) if sg else z3.UGE(A, B)
        if base == "Cmp":
            lt = (A < B) if sg else z3.ULT(A, B)
            if s.decide(lt):
                return s.mk_ordering(-1)
            if s.decide(A == B):
                return s.mk_ordering(0)
            return s.mk_ordering(1)
        raise Unmodelled("binop " + op)

    def int_method(s, ty, method, a, callee):
        """inherent integer methods (checked_/wrapping_/overflowing_/saturating_ families etc.)"""
        w, sg = INT[ty]
        lo = -(1 << (w - 1)) if sg else 0
        hi = (1 << (w - 1)) - 1 if sg else (1 << w) - 1
        fam = re.fullmatch(r"(checked|wrapping|overflowing|saturating|unchecked)_(add|sub|mul|neg|div|rem)", method)
        if fam:
            kind, op = fam.groups()
            if op == "neg":
                x, y = 0, a[0]
                r = s.binop("SubWithOverflow", x, y, ty)
            elif op in ("div", "rem"):
                if kind == "checked":
                    if s.decide(s.binop("Eq", a[1], 0, ty)):
                        return none()
                    if sg and s.decide(b_and(s.binop("Eq", a[0], lo, ty), s.binop("Eq", a[1], -1, ty))):
                        return none()
                    return some(s.binop("Div" if op == "div" else "Rem", a[0], a[1], ty))
                raise Unmodelled("int method " + method)
            else:
                r = s.binop({"add": "AddWithOverflow", "sub": "SubWithOverflow", "mul": "MulWithOverflow"}[op], a[0], a[1], ty)
            val, ovf = r.fields
            if kind == "checked":
                return none() if s.decide(ovf) else some(val)
            if kind in ("wrapping", "unchecked"):
                return val
            if kind == "overflowing":
                return tup(val, ovf)
            if kind == "saturating":
                if not s.decide(ovf):
                    return val
                if not sg:
                    return hi if op in ("add", "mul") else lo
                # signed: direction of the overflow
                if op == "add":
                    return hi if s.decide(s.binop("Ge", a[1], 0, ty)) else lo
                if op == "sub":
                    return lo if s.decide(s.binop("Ge", a[1], 0, ty)) else hi
                neg = b_and(s.binop("Lt", a[0], 0, ty), s.binop("Ge", a[1], 0, ty))
                neg = b_or(neg, b_and(s.binop("Ge", a[0], 0, ty), s.binop("Lt", a[1], 0, ty)))
                return lo if s.decide(neg) else hi
        x = a[0]
        if method in ("abs", "unsigned_abs", "wrapping_abs"):
            if isinstance(x, int):
                r = abs(x)
                if method == "abs" and r > hi:
                    raise Panic("overflow", "attempt to negate with overflow (abs)", callee)
                return wrap(r, w, sg and method != "unsigned_abs")
            if method == "abs" and s.decide(x == z3.BitVecVal(lo, w)):
                raise Panic("overflow", "attempt to negate with overflow (abs)", callee)
            return z3.If(x < 0, -x, x)
        if method == "abs_diff":
            y = a[1]
            if isinstance(x, int) and isinstance(y, int):
                return abs(x - y)
            X, Y = s.to_bv(x, w), s.to_bv(y, w)
            ge = (X >= Y) if sg else z3.UGE(X, Y)
            return z3.If(ge, X - Y, Y - X)
        if method == "clamp":
            lo_, hi_ = a[1], a[2]
            if s.decide(s.binop("Lt", x, lo_, ty)):
                return lo_
            if s.decide(s.binop("Gt", x, hi_, ty)):
                return hi_
            return x
        if method in ("rem_euclid", "div_euclid") and isinstance(a[1], int) and a[1] > 0:
            q = s.binop("Div", x, a[1], ty)
            r = s.binop("Rem", x, a[1], ty)
            negr = s.decide(s.binop("Lt", r, 0, ty))
            if method == "rem_euclid":
                return s.binop("Add", r, a[1], ty) if negr else r
            return s.binop("Sub", q, 1, ty) if negr else q
        if method in ("is_negative", "is_positive"):
            return s.binop("Lt" if method == "is_negative" else "Gt", x, 0, ty)
        if method == "signum":
            if isinstance(x, int):
                return (x > 0) - (x < 0)
            return z3.If(x > 0, z3.BitVecVal(1, w), z3.If(x < 0, z3.BitVecVal(-1, w), z3.BitVecVal(0, w)))
        if method in ("min", "max"):
            c = s.binop("Le", a[0], a[1], ty)
            pick = s.decide(c)
            return (a[0] if pick else a[1]) if method == "min" else (a[1] if pick else a[0])
        if method == "pow" and isinstance(a[1], int) and a[1] <= 4:
            r = 1
            for _ in range(a[1]):
                t = s.binop("MulWithOverflow", r, x, ty)
                if s.decide(t.fields[1]):
                    raise Panic("overflow", "attempt to multiply with overflow (pow)", callee)
                r = t.fields[0]
            return r
        if method in ("to_be_bytes", "to_le_bytes"):
            if isinstance(x, int):
                bs = list((x & ((1 << w) - 1)).to_bytes(w // 8, "big"))
            else:
                bs = [z3.Extract(w - 1 - 8 * i, w - 8 - 8 * i, x) for i in range(w // 8)]
            return VecM(bs if method == "to_be_bytes" else list(reversed(bs)), "array")
        if method in ("from_be_bytes", "from_le_bytes"):
            bs = list(x.get().items if isinstance(x, Ref) else x.items)
            if method == "from_le_bytes":
                bs = list(reversed(bs))
            if all(isinstance(b, int) for b in bs):
                return wrap(int.from_bytes(bytes(bs), "big"), w, sg)
            return z3.Concat(*[s.to_bv(b, 8) for b in bs])
        if method in ("leading_zeros", "trailing_zeros", "count_ones") and isinstance(x, int):
            u = x & ((1 << w) - 1)
            b = bin(u)[2:].zfill(w)
            return {"leading_zeros": len(b) - len(b.lstrip("0")), "trailing_zeros": (len(b) - len(b.rstrip("0"))) if u else w, "count_ones": b.count("1")}[method]
        raise Unmodelled("integer method %s::%s" % (ty, method))

    def mk_ordering(s, c):
        name = {-1: "Less", 0: "Equal", 1: "Greater"}[c]
        return Agg("Ordering", name, c, [])

    def cast_int(s, v, src_ty, dst_ty):
        if dst_ty == "bool":
            return v
        d = int_type(dst_ty)
        if d is None:
            return v
        dw, dsg = d
        if isinstance(v, bool):
            return 1 if v else 0
        if is_sym(v) and z3.is_bool(v):
            return z3.If(v, z3.BitVecVal(1, dw), z3.BitVecVal(0, dw))
        sr = int_type(src_ty) or (dw, dsg)
        sw, ssg = sr
        if isinstance(v, int):
            return wrap(v, dw, dsg)
        if dw == sw:
            return v
        if dw < sw:
            return z3.Extract(dw - 1, 0, v)
        return z3.SignExt(dw - sw, v) if ssg else z3.ZeroExt(dw - sw, v)

    # ------------------------------------------------------------------ places
    def parse_place(s, t):
        t = t.strip()
        if re.fullmatch(r"_\d+", t):
            return (t, ())
        if t.startswith("(") and t.endswith(")"):
            inner = t[1:-1].strip()
            if inner.startswith("*"):
                l, p = s.parse_place(inner[1:])
                return (l, p + (("deref",),))
            # base place then suffix
            if inner[0] == "(":
                d = 0
                for k, c in enumerate(inner):
                    if c == "(":
                        d += 1
                    elif c == ")":
                        d -= 1
                        if d == 0:
                            break
                base, rest = inner[:k + 1], inner[k + 1:]
            else:
                m = re.match(r"_\d+(\[[^\]]*\])*", inner)
                base, rest = m.group(0), inner[m.end():]
            l, p = s.parse_place(base)
            m = re.match(r" as (\w+)$", rest)
            if m:
                return (l, p + (("downcast", m.group(1)),))
            m = re.match(r" as variant#(\d+)$", rest)
            if m:
                return (l, p + (("downcast_idx", int(m.group(1))),))
            m = re.match(r"\.(\d+): (.*)$", rest, re.S)
            if m:
                return (l, p + (("field", int(m.group(1)), m.group(2)),))
            raise Unmodelled("place syntax: " + t)
        # indexing forms: _1[_2], _1[3 of 4], (*_1)[_2], _1[1..]
        m = re.match(r"(.*)\[(.*)\]$", t, re.S)
        if m:
            l, p = s.parse_place(m.group(1))
            ix = m.group(2).strip()
            if re.fullmatch(r"_\d+", ix):
                return (l, p + (("index", ix),))
            mm = re.fullmatch(r"(-?)(\d+) of (\d+)", ix)
            if mm:
                return (l, p + (("constindex", int(mm.group(2)), mm.group(1) == "-"),))
            mm = re.fullmatch(r"(\d+):(-?)(\d*)", ix)
            if mm:
                return (l, p + (("subslice", int(mm.group(1)), mm.group(3), mm.group(2) == "-"),))
            raise Unmodelled("index syntax: " + t)
        raise Unmodelled("place syntax: " + t)

    def place_type(s, frame, place):
        l, projs = place
        ty = frame.fn.locals.get(l, "?")
        for p in projs:
            if p[0] == "deref":
                ty = pointee(ty)
            elif p[0] == "field":
                ty = p[2]
            elif p[0] in ("index", "constindex"):
                m = re.match(r"\[(.*?)(; .*)?\]$", ty.strip())
                ty = m.group(1) if m else "?"
        return ty

    def _proj(s, frame, ref, p):
        k = p[0]
        if k == "deref":
            v = ref.get()
            if isinstance(v, Ref):
                return v
            if isinstance(v, BoxV):
                return Ref(lambda: v.v, lambda x: setattr(v, "v", x), "box")
            return ref      # slices / strs / raw boxes are held by value
        if k == "field":
            i = p[1]

            def get():
                v = ref.get()
                if isinstance(v, RawBox):
                    return v if v.v is None else v.v
                if type(v).__name__ == "VariantView":
                    if (v.k, i) not in v.co.vfields:
                        raise Unmodelled("read of unset coroutine field variant#%d.%d" % (v.k, i))
                    return v.co.vfields[(v.k, i)]
                if isinstance(v, (Agg, Closure)) or type(v).__name__ == "Coroutine":
                    if i >= len(v.fields):
                        raise Unmodelled("field %d of %r" % (i, v))
                    return v.fields[i]
                if isinstance(v, BoxV):     # Box internals (Unique/NonNull): see through
                    return v
                raise Unmodelled("field .%d of %s" % (i, type(v).__name__))

            def set_(x):
                v = ref.get()
                if isinstance(v, RawBox):
                    v.v = x; return
                if type(v).__name__ == "VariantView":
                    v.co.vfields[(v.k, i)] = x; return
                if isinstance(v, (Agg, Closure)) or type(v).__name__ == "Coroutine":
                    v.fields[i] = x; return
                raise Unmodelled("field write .%d of %s" % (i, type(v).__name__))
            return Ref(get, set_, "field%d" % i)
        if k == "downcast":
            v = ref.get()
            if isinstance(v, Agg) and v.variant is not None and v.variant != p[1]:
                raise Unmodelled("downcast of %r as %s" % (v, p[1]))
            return ref
        if k == "downcast_idx":
            import models
            vi = p[1]

            def vget():
                v = ref.get()
                if isinstance(v, models.Coroutine):
                    return models.VariantView(v, vi)
                return v
            return Ref(vget, None, "variant#%d" % vi)
        if k in ("index", "constindex"):
            def idx():
                v = ref.get()
                items = v.items
                if k == "index":
                    i = frame.locals[p[1]]
                    if is_sym(i):
                        # fork over the concrete positions
                        for c in range(len(items)):
                            if s.decide(i == c):
                                return c
                        raise Panic("index-oob", "index out of bounds")
                    return i
                return (len(items) - p[1]) if p[2] else p[1]

            def get():
                v = ref.get(); i = idx()
                if i >= len(v.items) or i < 0:
                    raise Panic("index-oob", "index out of bounds: %d of %d" % (i, len(v.items)))
                return v.items[i]

            def set_(x):
                v = ref.get(); i = idx()
                if isinstance(v, SliceV):
                    v.vec.items[v.lo + i] = x
                else:
                    v.items[i] = x
            return Ref(get, set_, "index")
        raise Unmodelled("projection " + k)

    def place_ref(s, frame, place):
        l, projs = place
        loc = frame.locals

        def lget():
            if l not in loc:
                ty = frame.fn.locals.get(l, "")
                m = re.match(r"\{closure@([^}]*)\}$", ty.strip())
                if m:       # zero-sized (non-capturing) closure: never assigned in MIR
                    loc[l] = Closure(m.group(1), [], [], frame.tparams or None)
                elif ty.strip() == "()":
                    loc[l] = unit()
                else:
                    raise Unmodelled("read of uninitialised local %s in %s" % (l, frame.fn.name))
            return loc[l]
        ref = Ref(lget, lambda x: loc.__setitem__(l, x), l)
        for p in projs:
            ref = s._proj(frame, ref, p)
        return ref

    # ------------------------------------------------------------------ operands / rvalues
    def parse_const(s, frame, t):
        t = t.strip()
        if frame is not None and frame.tparams and t in frame.tparams and isinstance(frame.tparams[t], int):
            return frame.tparams[t], "usize"
        m = re.fullmatch(r"(-?\d+)_([iu](?:8|16|32|64|128|size))", t)
        if m:
            return int(m.group(1)), m.group(2)
        if t == "true":
            return True, "bool"
        if t == "false":
            return False, "bool"
        if t == "()":
            return unit(), "()"
        if t.startswith('"'):
            return StrM(_unescape(t[1:-1])), "&str"
        if t.startswith('b"'):
            return VecM(list(_unescape_bytes(t[2:-1])), "array"), "&[u8]"
        m = re.fullmatch(r"'(.*)'", t)
        if m:
            return ord(_unescape(m.group(1)).decode()), "char"
        m = re.fullmatch(r"(?:std::|core::)?([iu](?:8|16|32|64|128|size))::(MIN|MAX|BITS)", t)
        if m:
            w, sg = INT[m.group(1)]
            if m.group(2) == "BITS":
                return w, "u32"
            lo = -(1 << (w - 1)) if sg else 0
            hi = (1 << (w - 1)) - 1 if sg else (1 << w) - 1
            return (lo if m.group(2) == "MIN" else hi), m.group(1)
        if t.startswith("ctor "):
            nm = re.sub(r"::<.*?>(?=::|$)", "", t[5:])
            return FnItem("ctor " + nm), "fn"
        m = re.match(r"ZeroSized: (.*)$", t, re.S)
        if m:
            ty = m.group(1).strip()
            mm = re.match(r"\{closure@([^}]*)\}", ty)
            if mm:
                return Closure(mm.group(1), [], [], (frame.tparams or None) if frame is not None else None), ty
            mm = re.match(r"(?:for<[^>]*> )?(?:unsafe )?(?:extern \"[^\"]*\" )?fn\(.*?\)(?: -> .*?)? \{(.*)\}$", ty, re.S)
            if mm:
                return FnItem(mm.group(1)), "fn"
            return Agg(strip_generics(ty), None, 0, []), ty
        if "promoted[" in t:
            m = re.search(r"promoted\[(\d+)\]", t)
            key = None
            base = frame.fn.name
            for cand in (base + "::promoted[%s]" % m.group(1),):
                if cand in s.fns:
                    key = cand
            if key is None:
                raise Unmodelled("promoted constant " + t)
            return s.call_fn(s.fns[key], []), s.fns[key].ret
        # enum unit variants / unit structs written as paths, fn items, associated consts
        if re.fullmatch(r"[A-Za-z_][\w:<>, '&\[\]\(\);]*", t):
            nm = re.sub(r"::<.*?>(?=::|$)", "", t)
            segs = nm.split("::")
            if len(segs) >= 2:
                r = s.mk_variant(segs[-2], segs[-1], [], segs[-3] if len(segs) >= 3 else None)
                if r is not None:
                    return r, segs[-2]
            short = "::".join(segs[-2:])
            if short in s.by_short or segs[-1] in s.by_short:
                return FnItem(nm), "fn"
            if nm in s.fns and s.fns[nm].is_const:
                return s.call_fn(s.fns[nm], []), s.fns[nm].ret
            for k, f in s.fns.items():
                if f.is_const and (k.endswith("::" + segs[-1]) or k == segs[-1]):
                    return s.call_fn(f, []), f.ret
            return FnItem(nm), "fn"
        raise Unmodelled("constant " + t)

    def parse_operand(s, t):
        t = t.strip()
        if t.startswith("no_retag "):
            t = t[9:]
        if t.startswith("move "):
            return ("use", s.parse_place(t[5:]), True)
        if t.startswith("copy "):
            return ("use", s.parse_place(t[5:]), False)
        if t.startswith("const "):
            return ("const", t[6:])
        if re.match(r"[A-Za-z_<]", t):
            # a tuple-struct / tuple-variant constructor used as a function value
            return ("const", "ctor " + t)
        raise Unmodelled("operand " + t)

    def eval_operand(s, frame, op):
        if op[0] == "use":
            v = s.place_ref(frame, op[1]).get()
            if not op[2] and isinstance(v, Agg):
                # `copy` of a tuple/struct of Copy data: rebuild the spine
                return Agg(v.ty, v.variant, v.vidx, list(v.fields))
            return v
        v, _ = s.parse_const(frame, op[1])
        return v

    def operand_type(s, frame, op):
        if op[0] == "use":
            return s.place_type(frame, op[1])
        return s.parse_const(frame, op[1])[1]

    def qual(s, name, module):
        """runtime name of a repository type: bare if unique, `module::Name` if the name is
        defined in several modules"""
        if name not in s.repo_types:
            return name
        return name if len(s.typedefs.get(name, [])) <= 1 else "%s::%s" % (module, name)

    def tdef(s, name, kind=None, variant=None, hint=None):
        """-> (runtime type name, definition) for `name` (optionally `module::name`)"""
        if "::" in name:
            hint, name = name.split("::")[-2], name.split("::")[-1]
        c = [d for d in s.typedefs.get(name, []) if kind is None or d[1] == kind]
        if variant is not None:
            c = [d for d in c if d[1] == "enum" and any(vn == variant for vn, _ in d[2])]
        if len(c) > 1 and hint:
            cc = [d for d in c if d[0] == hint]
            c = cc or c
        if len(c) > 1 and name not in s.repo_types:
            cc = [d for d in c if d[0] == "conway"]
            c = cc or c
        if not c:
            return None, None
        return s.qual(name, c[0][0]), c[0]

    def canon_type(s, text, module=None):
        """canonical runtime name of a type written in source / MIR text"""
        t = re.sub(r"^&(?:'\w+ )?(?:mut )?", "", text.strip())
        if t.startswith("("):
            return "(tuple)"
        if t.startswith("["):
            return "[]"
        base = strip_generics(t)
        if len(s.typedefs.get(base, [])) > 1 and base in s.repo_types:
            path = re.sub(r"<.*>", "", t).split("::")
            hint = path[-2] if len(path) >= 2 else module
            q, d = s.tdef(base, hint=hint)
            if d is not None and (d[0] == hint or hint is None):
                return q
            return "%s::%s" % (hint, base)
        return base

    def mk_variant(s, ty, variant, fields, hint=None):
        ty = strip_generics(ty)
        if ty in BUILTIN_ENUMS and variant in BUILTIN_ENUMS[ty]:
            idx = BUILTIN_ENUMS[ty].index(variant)
            if ty == "Ordering":
                idx = ORDERING_DISCR[variant]
            return Agg(ty, variant, idx, fields)
        q, d = s.tdef(ty, "enum", variant, hint)
        if d is not None:
            for i, (vn, fs) in enumerate(d[2]):
                if vn == variant:
                    return Agg(q, variant, i, fields)
        return None

    def variant_index(s, variant):
        """an enum variant written without its type (e.g. `CoerceError(..)`): candidates"""
        c = []
        for name, defs in s.typedefs.items():
            for d in defs:
                if d[1] == "enum":
                    for i, (vn, fs) in enumerate(d[2]):
                        if vn == variant:
                            c.append((s.qual(name, d[0]), i, fs))
        for ty, vs in BUILTIN_ENUMS.items():
            if variant in vs:
                c.append((ty, ORDERING_DISCR[variant] if ty == "Ordering" else vs.index(variant), None))
        return c

    def parse_rvalue(s, t):
        t = t.strip()
        if t.startswith(("move ", "copy ", "const ", "no_retag ")):
            # maybe a cast: "<operand> as T (Kind)"
            m = re.match(r"(.*) as (.*) \((\w+(?:\([^)]*\))?)\)$", t, re.S)
            if m and not t.startswith("const ") or (m and re.match(r"const .* as ", t)):
                if m:
                    return ("cast", s.parse_operand(m.group(1)), m.group(2), m.group(3))
            return ("op", s.parse_operand(t))
        if t.startswith("&raw const ") or t.startswith("&raw mut "):
            return ("ref", s.parse_place(t.split(" ", 2)[2]))
        if t.startswith("&mut "):
            return ("ref", s.parse_place(t[5:]))
        if t.startswith("&fake shallow "):
            return ("ref", s.parse_place(t[14:]))
        if t.startswith("&"):
            return ("ref", s.parse_place(t[1:]))
        m = re.match(r"(\w+)\((.*)\)$", t, re.S)
        if m and m.group(1) in ("Add", "Sub", "Mul", "Div", "Rem", "BitXor", "BitAnd", "BitOr", "Shl", "Shr", "Eq", "Lt", "Le", "Ne", "Ge", "Gt", "Cmp", "Offset",
                                "AddWithOverflow", "SubWithOverflow", "MulWithOverflow", "AddUnchecked", "SubUnchecked", "MulUnchecked", "ShlUnchecked", "ShrUnchecked"):
            a, b = split_top(m.group(2))
            return ("bin", m.group(1), s.parse_operand(a), s.parse_operand(b))
        if m and m.group(1) in ("Not", "Neg", "PtrMetadata"):
            return ("un", m.group(1), s.parse_operand(m.group(2)))
        if m and m.group(1) == "discriminant":
            return ("discr", s.parse_place(m.group(2)))
        if m and m.group(1) == "Len":
            return ("len", s.parse_place(m.group(2)))
        if m and m.group(1) in ("CopyForDeref",):
            return ("op", ("use", s.parse_place(m.group(2)), False))
        if t.startswith("deref_copy "):
            return ("op", ("use", s.parse_place(t[11:]), False))
        if m and m.group(1) == "ShallowInitBox":
            return ("op", s.parse_operand(split_top(m.group(2))[0]))
        if t.startswith("["):
            inner = t[1:-1]
            parts = split_top(inner, ";")
            if len(parts) == 2 and not parts[0].startswith("["):
                return ("repeat", s.parse_operand(parts[0]), parts[1].strip())
            return ("array", [s.parse_operand(x) for x in split_top(inner)])
        if t.startswith("("):
            return ("tuple", [s.parse_operand(x) for x in split_top(t[1:-1])])
        m = re.match(r"\{(closure|coroutine)@([^}]*)\}(?: \{(.*)\})?$", t, re.S)
        if m:
            caps = []
            if m.group(3) and m.group(3).strip():
                for part in split_top(m.group(3)):
                    k, v = part.split(":", 1)
                    caps.append((k.strip(), s.parse_operand(v)))
            return ("coroutine" if m.group(1) == "coroutine" else "closure", re.sub(r" \(#\d+\)$", "", m.group(2)), caps)
        m = re.match(r"\{async (?:fn body|block|closure body)[^@]*@([^}]*)\}(?: \{(.*)\})?$", t, re.S)
        if m:
            caps = []
            if m.group(2) and m.group(2).strip():
                for part in split_top(m.group(2)):
                    k, v = part.split(":", 1)
                    caps.append((k.strip(), s.parse_operand(v)))
            return ("coroutine", m.group(1), caps)
        # aggregates: Path { f: op, .. } | Path(op, ..) | Path
        if t.endswith("}") and not t.startswith("{"):
            k = _match_open(t, "{", "}")
            if k is not None and k > 0:
                fields = []
                body = t[k + 1:-1].strip()
                for part in split_top(body) if body else []:
                    kk, v = part.split(":", 1)
                    fields.append((kk.strip().replace("r#", ""), s.parse_operand(v)))
                return ("struct", t[:k].strip(), fields)
        if t.endswith(")"):
            k = _match_open(t, "(", ")")
            if k is not None and k > 0:
                return ("tuplestruct", t[:k].strip(), [s.parse_operand(x) for x in split_top(t[k + 1:-1])])
        if re.fullmatch(r"[A-Za-z_<][\w:<>, '&\[\]\(\);]*", t):
            return ("tuplestruct", t, [])
        raise Unmodelled("rvalue " + t)

    def eval_rvalue(s, frame, rv):
        k = rv[0]
        if k == "op":
            return s.eval_operand(frame, rv[1])
        if k == "ref":
            r = s.place_ref(frame, rv[1])
            # reborrow `&(*_1)`: collapse to the original reference's target
            return r
        if k == "bin":
            a = s.eval_operand(frame, rv[2]); b = s.eval_operand(frame, rv[3])
            ty = s.operand_type(frame, rv[2])
            if int_type(ty) is None and ty != "bool":
                ty2 = s.operand_type(frame, rv[3])
                if int_type(ty2) or ty2 == "bool":
                    ty = ty2
                elif is_sym(a) and not z3.is_bool(a):
                    ty = {8: "u8", 16: "u16", 32: "u32", 64: "u64", 128: "u128"}[a.size()]
            if isinstance(a, Ref) and isinstance(b, Ref) and rv[1] in ("Eq", "Ne"):
                raise Unmodelled("pointer comparison")
            return s.binop(rv[1], a, b, ty)
        if k == "un":
            a = s.eval_operand(frame, rv[2])
            if rv[1] == "Not":
                if isinstance(a, bool):
                    return not a
                if is_sym(a) and z3.is_bool(a):
                    return z3.Not(a)
                ty = s.operand_type(frame, rv[2])
                w, sg = int_type(ty)
                return wrap(~a, w, sg) if isinstance(a, int) else ~a
            if rv[1] == "Neg":
                ty = s.operand_type(frame, rv[2])
                w, sg = int_type(ty)
                return wrap(-a, w, sg) if isinstance(a, int) else -a
            if rv[1] == "PtrMetadata":
                return s.length_of(a)
        if k == "discr":
            v = s.place_ref(frame, rv[1]).get()
            if isinstance(v, Agg):
                return v.vidx
            if hasattr(v, "state"):
                return v.state
            raise Unmodelled("discriminant of %s" % type(v).__name__)
        if k == "len":
            return s.length_of(s.place_ref(frame, rv[1]).get())
        if k == "cast":
            v = s.eval_operand(frame, rv[1])
            kind = rv[3]
            if kind.startswith("IntToInt"):
                return s.cast_int(v, s.operand_type(frame, rv[1]), rv[2].strip())
            if kind.startswith("PointerCoercion") or kind in ("Transmute", "PtrToPtr", "FnPtrToPtr", "Subtype"):
                # unsizing `&[T; N] -> &[T]`, `&T -> &dyn Trait`, closure -> fn pointer: value-preserving
                return v
            raise Unmodelled("cast kind " + kind)
        if k == "array":
            return VecM([s.eval_operand(frame, o) for o in rv[1]], "array")
        if k == "repeat":
            n = rv[2]
            m = re.match(r"const (\d+)_usize", n)
            v = s.eval_operand(frame, rv[1])
            import models
            return VecM([models.vclone(s, v) for _ in range(int(m.group(1)))], "array")
        if k == "tuple":
            return Agg("(tuple)", None, 0, [s.eval_operand(frame, o) for o in rv[1]])
        if k == "closure":
            return Closure(rv[1], [s.eval_operand(frame, o) for _, o in rv[2]], [n for n, _ in rv[2]], frame.tparams or None)
        if k == "coroutine":
            import models
            co = models.Coroutine(rv[1], [s.eval_operand(frame, o) for _, o in rv[2]], [n for n, _ in rv[2]])
            co.poll_fn = frame.fn.name + "::{closure#0}"
            if co.poll_fn not in s.fns:
                c = [n for n in s.fns if n.startswith(frame.fn.name + "::{closure#") and n.count("{closure#") == frame.fn.name.count("{closure#") + 1
                     and s.fns[n].args and "Pin<&mut" in s.fns[n].args[0][1]]
                if len(c) != 1:
                    raise Unmodelled("poll function of the coroutine built in %s" % frame.fn.name)
                co.poll_fn = c[0]
            return co
        if k == "struct":
            name = strip_generics(rv[1])
            vals = {n: s.eval_operand(frame, o) for n, o in rv[2]}
            path = re.sub(r"::<.*?>(?=::|$)", "", rv[1])
            segs = [strip_generics(x) for x in path.split("::")]
            cands = [d for d in s.typedefs.get(name, []) if d[1] == "struct" and set(d[2]) == set(vals)]
            if len(cands) > 1 and len(segs) >= 2:
                cands = [d for d in cands if d[0] == segs[-2]] or cands
            if cands:
                d = cands[0]
                return Agg(s.qual(name, d[0]), None, 0, [vals[f] for f in d[2]])
            # enum struct-variant: Type::Variant { .. }
            if len(segs) >= 2:
                q, d = s.tdef(segs[-2], "enum", segs[-1], segs[-3] if len(segs) >= 3 else None)
                if d is not None:
                    for i, (vn, fs) in enumerate(d[2]):
                        if vn == segs[-1]:
                            return Agg(q, vn, i, [vals[f] for f in fs])
            c = [x for x in s.variant_index(name) if x[2] is not None and set(x[2]) == set(vals)]
            if len(c) == 1:
                ty, i, fs = c[0]
                return Agg(ty, name, i, [vals[f] for f in fs])
            # foreign struct (pallas, std): keep declared order of the literal, remember names
            a = Agg(name, None, 0, list(vals.values()))
            s.foreign_fields.setdefault(name, list(vals.keys()))
            return a
        if k == "tuplestruct":
            path = re.sub(r"::<.*?>(?=::|$)", "", rv[1])
            path = re.sub(r"<.*>$", "", path)
            segs = path.split("::")
            vals = [s.eval_operand(frame, o) for o in rv[2]]
            if len(segs) >= 2:
                r = s.mk_variant(segs[-2], segs[-1], vals, segs[-3] if len(segs) >= 3 else None)
                if r is not None:
                    return r
            name = segs[-1]
            if len(segs) == 1 and s._dest_ty:
                # trimmed path `Number(..)`: a variant of the destination's enum wins over a
                # (possibly foreign) struct of the same name
                dn = strip_generics(re.sub(r"<.*>$", "", s._dest_ty.strip())).split("::")
                r = s.mk_variant(dn[-1], name, vals, dn[-2] if len(dn) >= 2 else None) if dn[-1] and dn[-1][0].isupper() else None
                if r is not None and len(models_deref_fields(r)) == len(vals):
                    return r
            q, d = s.tdef(name, "struct", hint=segs[-2] if len(segs) >= 2 else None)
            if d is not None:
                return Agg(q, None, 0, vals)
            c = [x for x in s.variant_index(name) if x[2] is None or len(x[2]) == len(vals)]
            if len(c) == 1:
                return Agg(c[0][0], name, c[0][1], vals)
            if len(c) > 1:
                # disambiguate by the type of the destination (set by the caller)
                want = s.canon_type(s._dest_ty or "", getattr(s, "_cur_module", None))
                for ty, i, _ in c:
                    if ty == want or ty.split("::")[-1] == want.split("::")[-1] and ty.split("::")[0] in (s._dest_ty or ""):
                        return Agg(ty, name, i, vals)
                raise Unmodelled("ambiguous variant %s: %s (dest %s)" % (name, [x[0] for x in c], s._dest_ty))
            return Agg(name, None, 0, vals)
        raise Unmodelled("rvalue kind " + k)

    foreign_fields = {}
    _dest_ty = None
    _cur_module = None

    def length_of(s, v):
        if isinstance(v, Ref):
            v = v.get()
        if isinstance(v, (VecM, SliceV)):
            return len(v.items)
        if isinstance(v, StrM):
            return len(v.bytes)
        if isinstance(v, Opaque):
            # length of an uninterpreted encoding: an arbitrary usize below 2^32 (one per value)
            key = ("len", repr(v))
            if key not in s.opaque_terms:
                s.opaque_terms[key] = z3.BitVec("len!%d" % len(s.opaque_terms), 64)
            t = s.opaque_terms[key]
            s._add_pc(z3.ULT(t, z3.BitVecVal(1 << 32, 64)))
            return t
        raise Unmodelled("length of %s" % type(v).__name__)

    # ------------------------------------------------------------------ execution
    def call_fn(s, fn, args, tparams=None):
        ov = s.overrides.get(fn.name)
        if ov is not None:
            s.stats.models_used["override:" + fn.name.split("::")[-1]] = 1
            return ov(s, args)
        s.stats.fns_executed[fn.name] = s.stats.fns_executed.get(fn.name, 0) + 1
        frame = Frame(fn)
        if tparams:
            frame.tparams = tparams
        if len(args) != len(fn.args):
            raise Unmodelled("arity mismatch calling %s: %d args for %d params" % (fn.name, len(args), len(fn.args)))
        for (a, _), v in zip(fn.args, args):
            frame.locals[a] = v
        bb = "bb0"
        while True:
            stmts = fn.blocks[bb]
            for idx, st in enumerate(stmts):
                s.steps += 1
                s.stats.steps += 1
                if s.steps > s.max_steps:
                    raise StepLimit("step bound %d reached in %s" % (s.max_steps, fn.name))
                key = (bb, idx)
                ast = fn.parsed.get(key)
                if ast is None:
                    ast = s.parse_stmt(st)
                    fn.parsed[key] = ast
                if s.trace:
                    print("   ", fn.name.split("::")[-1], bb, st[:140])
                try:
                    r = s.exec_stmt(frame, ast, st)
                except Panic as p:
                    if not getattr(p, "fn", None):
                        p.fn = fn.name
                        # stable site name: module + item path without source positions
                        p.site = re.sub(r"<impl at [^>]*>", "<impl>", fn.name)
                    raise
                except (Infeasible, StepLimit):
                    raise
                except Unmodelled as e:
                    if not getattr(e, "_loc", None):
                        e._loc = True
                        e.args = ("%s   [at %s %s: %s]" % (e.args[0] if e.args else "", fn.name, bb, st[:200]),)
                    raise
                except RecursionError:
                    raise
                except Exception as e:
                    raise Unmodelled("internal error %s: %s   [at %s %s: %s]" % (type(e).__name__, e, fn.name, bb, st[:200]))
                if r is None:
                    continue
                if r[0] == "goto":
                    bb = r[1]; break
                if r[0] == "return":
                    return frame.locals.get("_0", unit())
            else:
                raise Unmodelled("fell off block %s of %s" % (bb, fn.name))

    def parse_stmt(s, st):
        if st.startswith(("StorageLive", "StorageDead", "nop", "Retag", "FakeRead", "PlaceMention", "AscribeUserType", "Coverage", "Deinit", "ConstEvalCounter", "BackwardIncompatibleDropHint")):
            return ("nop",)
        if st.startswith("goto -> "):
            return ("goto", st[8:].strip())
        if st == "return":
            return ("return",)
        if st == "unreachable":
            return ("unreachable",)
        if st.startswith("resume") or st.startswith("terminate") or st == "coroutine_drop":
            return ("resume",)
        m = re.match(r"switchInt\((.*)\) -> \[(.*)\]$", st, re.S)
        if m:
            targets = []
            for part in split_top(m.group(2)):
                k, v = part.split(":")
                targets.append((k.strip(), v.strip()))
            return ("switch", s.parse_operand(m.group(1)), targets)
        m = re.match(r"drop\((.*)\) -> \[return: (bb\d+)", st, re.S)
        if m:
            return ("goto", m.group(2))
        m = re.match(r"assert\((!?)(.*?), (\".*)\) -> \[success: (bb\d+)", st, re.S)
        if m:
            return ("assert", m.group(1) == "!", s.parse_operand(m.group(2)), m.group(3), m.group(4))
        m = re.match(r"falseEdge -> \[real: (bb\d+)", st)
        if m:
            return ("goto", m.group(1))
        m = re.match(r"falseUnwind -> \[real: (bb\d+)", st)
        if m:
            return ("goto", m.group(1))
        m = re.match(r"discriminant\((.*)\) = (\d+)$", st)
        if m:
            return ("setdiscr", s.parse_place(m.group(1)), int(m.group(2)))
        m = re.match(r"(.*?) = yield\((.*)\) -> \[resume: (bb\d+)", st, re.S)
        if m:
            return ("yield", s.parse_operand(m.group(2)), m.group(3))
        # call terminators
        m = re.match(r"(.*)\) -> (\[return: (bb\d+).*|unwind.*|bb\d+)$", st, re.S)
        if m:
            k = _top_assign(m.group(1))
            dest0, call0 = (m.group(1)[:k], m.group(1)[k + 3:]) if k is not None else (None, m.group(1))
            m = _CallM(dest0, call0, m.group(3))
        if m and "(" in m.group(2) and not m.group(2).lstrip().startswith(("move ", "copy ", "const ", "&")):
            dest = m.group(1)
            call = m.group(2)
            # split callee / args at the last top-level '('
            depth, pos = 0, None
            i = len(call) - 1
            # find the '(' that opens the argument list: scan from the end
            d = 0
            while i >= 0:
                c = call[i]
                if c == ")":
                    d += 1
                elif c == "(":
                    if d == 0:
                        pos = i; break
                    d -= 1
                i -= 1
            callee, args = call[:pos].strip(), call[pos + 1:]
            ops = [s.parse_operand(a) for a in split_top(args)] if args.strip() else []
            return ("call", s.parse_place(dest) if dest else None, callee, ops, m.group(4))
        k = _top_assign(st)
        if k is not None:
            return ("assign", s.parse_place(st[:k]), s.parse_rvalue(st[k + 3:]))
        raise Unmodelled("statement " + st)

    def exec_stmt(s, frame, ast, text):
        k = ast[0]
        if k == "nop":
            return None
        if k == "assign":
            s._dest_ty = s.place_type(frame, ast[1]) if ast[2][0] == "tuplestruct" else None
            v = s.eval_rvalue(frame, ast[2])
            s.place_ref(frame, ast[1]).set(v)
            return None
        if k == "goto":
            return ("goto", ast[1])
        if k == "return":
            return ("return",)
        if k == "switch":
            v = s.eval_operand(frame, ast[1])
            other = None
            if isinstance(v, bool):
                v = 1 if v else 0
            for case, tgt in ast[2]:
                if case == "otherwise":
                    other = tgt; continue
                c = int(case)
                if isinstance(v, int):
                    # discriminants are compared as unsigned bit patterns in the dump
                    if v == c or (v < 0 and (v & ((1 << 64) - 1)) == c) or (v < 0 and (v & ((1 << 128) - 1)) == c) or (v < 0 and (v & 0xff) == c):
                        return ("goto", tgt)
                else:
                    cond = (v if c == 1 else z3.Not(v)) if z3.is_bool(v) else (v == z3.BitVecVal(c, v.size()))
                    if s.decide(cond):
                        return ("goto", tgt)
            if other is None:
                raise Unmodelled("switchInt without matching target: %r" % (v,))
            return ("goto", other)
        if k == "assert":
            c = s.eval_operand(frame, ast[2])
            if ast[1]:
                c = b_not(c)
            if s.decide(c):
                return ("goto", ast[4])
            kind = "overflow" if "overflow" in ast[3] else ("index-oob" if "index out of bounds" in ast[3] else ("div-by-zero" if "divide by zero" in ast[3] or "divisor of zero" in ast[3] else "assert"))
            raise Panic(kind, ast[3][:80], frame.fn.name)
        if k == "unreachable":
            raise Unmodelled("reached `unreachable` in %s" % frame.fn.name)
        if k == "resume":
            raise Unmodelled("reached unwind path in %s" % frame.fn.name)
        if k == "setdiscr":
            v = s.place_ref(frame, ast[1]).get()
            if hasattr(v, "state"):
                v.state = ast[2]
                return None
            raise Unmodelled("SetDiscriminant on %s" % type(v).__name__)
        if k == "call":
            args = [s.eval_operand(frame, o) for o in ast[3]]
            r = s.dispatch(frame, ast[2], args)
            if ast[4] is None:
                raise Unmodelled("diverging call %s returned" % ast[2])
            if ast[1] is not None:
                s.place_ref(frame, ast[1]).set(r)
            return ("goto", ast[4])
        if k == "yield":
            raise Unmodelled("yield outside coroutine driver")
        raise Unmodelled("stmt kind " + k)

    # ------------------------------------------------------------------ call dispatch
    def runtime_type(s, v):
        while isinstance(v, Ref):
            v = v.get()
        if isinstance(v, Agg):
            return v.ty
        if isinstance(v, BoxV):
            return "Box"
        if isinstance(v, VecM):
            return "Vec" if v.kind == "Vec" else "[]"
        if isinstance(v, SliceV):
            return "[]"
        if isinstance(v, StrM):
            return "String" if v.owned else "str"
        if isinstance(v, MapM):
            return v.kind
        if isinstance(v, Closure):
            return "closure"
        if isinstance(v, FnItem):
            return "fn"
        if isinstance(v, bool) or (is_sym(v) and z3.is_bool(v)):
            return "bool"
        if isinstance(v, int) or is_sym(v):
            return "int"
        return type(v).__name__

    def parse_callee(s, callee):
        r = s._callee_cache.get(callee)
        if r is None:
            r = s._parse_callee(callee)
            s._callee_cache[callee] = r
        return r

    def _parse_callee(s, callee):
        """-> ('trait', self_text, trait_name, trait_generics, method, method_generics) | ('path', segs, generics)"""
        c = callee.strip()
        if c.startswith("<"):
            # <SELF as TRAIT>::method::<G>
            depth = 0
            for i, ch in enumerate(c):
                if ch == "<":
                    depth += 1
                elif ch == ">" and c[i - 1] != "-":
                    depth -= 1
                    if depth == 0:
                        break
            inner, rest = c[1:i], c[i + 1:]
            # split at top-level " as "
            depth, pos = 0, -1
            for j, ch in enumerate(inner):
                if ch in "<([":
                    depth += 1
                elif ch in ")]" or (ch == ">" and inner[j - 1] != "-"):
                    depth -= 1
                elif depth == 0 and inner.startswith(" as ", j):
                    pos = j
            rest = rest[2:] if rest.startswith("::") else rest
            mg = ""
            m = re.match(r"(\w+)(?:::<(.*)>)?$", rest, re.S)
            method = m.group(1) if m else rest
            mg = (m.group(2) or "") if m else ""
            if pos < 0:
                # <Type>::method  (inherent on a complex type)
                return ("path", [strip_generics(inner), method], mg, inner)
            self_t, trait = inner[:pos].strip(), inner[pos + 4:].strip()
            tg = ""
            if "<" in trait:
                tg = trait[trait.index("<") + 1:trait.rindex(">")]
            return ("trait", self_t, strip_generics(trait), tg, method, mg)
        # inherent-impl segments: `module::<impl path::Type>::method` -> `Type::method`
        c = re.sub(r"<impl ([^<>]*(?:<[^<>]*>)?[^<>]*)>", lambda m: "slice" if m.group(1).strip().startswith("[") else strip_generics(m.group(1)), c)
        # plain path with turbofish segments
        nm = re.sub(r"::<.*?>(?=::|$)", "", c, flags=re.S)
        # nested generics confuse the lazy regex; strip by bracket matching instead
        out, depth = [], 0
        i = 0
        while i < len(c):
            if c.startswith("::<", i):
                d, j = 0, i + 2
                while j < len(c):
                    if c[j] == "<":
                        d += 1
                    elif c[j] == ">" and c[j - 1] != "-":
                        d -= 1
                        if d == 0:
                            break
                    j += 1
                i = j + 1
                continue
            out.append(c[i]); i += 1
        nm = "".join(out)
        return ("path", nm.split("::"), "", c)

    def dispatch(s, frame, callee, args):
        if frame is not None and frame.tparams:
            for k, v in frame.tparams.items():
                if isinstance(v, int):
                    callee = re.sub(r"\b%s\b" % re.escape(k), str(v), callee)
        pc = s.parse_callee(callee)
        if pc[0] == "trait":
            _, self_t, trait, tg, method, mg = pc
            return s.call_trait(frame, self_t, trait, tg, method, args, callee)
        segs = pc[1]
        short2 = "::".join(segs[-2:])
        # 1. function of the dump (exact name, or unique Type::method / module::fn suffix)
        nm = "::".join(segs)
        f = s.fns.get(nm)
        if f is None and not s.is_std_path(segs):
            c = s.by_short.get(short2)
            if c and len(c) == 1:
                f = c[0]
            elif c and len(c) > 1:
                # prefer the candidate whose full path ends with the call path
                cc = [x for x in c if x.name.endswith(nm) or nm.endswith(x.name)]
                if len(cc) == 1:
                    f = cc[0]
            if f is None:
                # rustc prints trimmed paths: a free function unique in its crate appears by its bare name
                c = [x for x in s.by_short.get(segs[-1], []) if x.name == segs[-1] or x.name.endswith("::" + segs[-1])]
                c = [x for x in c if "<impl" not in x.name]
                if len(c) == 1 and (len(segs) == 1 or segs[0] in ("tx3_tir", "tx3_cardano", "tx3_resolver", "tx3_lang", "crate")):
                    f = c[0]
        if f is not None:
            tp = None
            mt = re.search(r"::<(.*)>$", callee.strip(), re.S)
            if mt:
                gens = mirparse.fn_generics(segs[-1])
                vals = [v for v in split_top(mt.group(1)) if not v.strip().startswith("'")]
                if gens and len(vals) == len(gens):
                    tp = {}
                    for (kind, gname), v in zip(gens, vals):
                        v = v.strip()
                        if frame is not None and v in frame.tparams:
                            v = frame.tparams[v]
                        tp[gname] = int(v) if kind == "const" and re.fullmatch(r"\d+", str(v)) else v
            return s.call_fn(f, args, tp)
        # 2. model by "Type::method"
        return s.call_model(short2, args, callee, frame)

    STD_ROOTS = ("std", "core", "alloc", "hashbrown")

    def is_std_path(s, segs):
        return segs[0] in s.STD_ROOTS or len(segs) >= 2 and segs[-2] in ("Option", "Result", "Vec", "String", "HashMap", "HashSet", "BTreeMap", "BTreeSet", "Box", "str", "Iterator")

    def call_model(s, key, args, callee, frame=None):
        m = s.models.get(key)
        if m is None:
            mi = re.fullmatch(r"([iu](?:8|16|32|64|128|size))::(\w+)", key)
            if mi:
                s.stats.models_used["int::" + mi.group(2)] = 1
                return s.int_method(mi.group(1), mi.group(2), args, callee)
            raise Unmodelled("call %s (key %s)" % (callee, key))
        s.stats.models_used[key] = s.stats.models_used.get(key, 0) + 1
        return m(s, args, callee)

    def self_name(s, frame, self_t, args):
        t = self_t.strip()
        t = re.sub(r"^&(?:'\w+ )?(?:mut )?", "", t)
        base = strip_generics(t)
        # type parameters (single identifiers that are not known types) resolve by the runtime value
        if base in s.repo_types and len(s.typedefs[base]) > 1:
            return s.canon_type(t, s.fn_module(frame.fn) if frame is not None else None), False
        # `impl Trait` in argument position is an anonymous type parameter as well
        if t.startswith("impl ") and args:
            return s.runtime_type(args[0]), True
        if re.fullmatch(r"[A-Z]\w{0,2}|Self|__\w+", base) and base not in s.typedefs:
            if args:
                return s.runtime_type(args[0]), True
            return base, True
        if t.startswith("[") or t.startswith("&["):
            return "[]", False
        if t.startswith("("):
            return "(tuple)", False
        if t.startswith("{closure@"):
            return "closure", False
        return base, False

    def call_trait(s, frame, self_t, trait, tg, method, args, callee):
        s._cur_module = s.fn_module(frame.fn) if frame is not None else None
        sname, generic = s.self_name(frame, self_t, args)
        # closures and function items
        if trait in ("Fn", "FnMut", "FnOnce"):
            return s.call_callable(args[0], args[1].fields if isinstance(args[1], Agg) else [args[1]])
        ckey = (trait, tg, method, sname, self_t, s._cur_module)
        tgt = s._trait_cache.get(ckey)
        if tgt is None:
            tgt = s._resolve_trait(frame, self_t, trait, tg, method, sname, callee)
            s._trait_cache[ckey] = tgt
        if tgt[0] == "fn":
            return s.call_fn(tgt[1], args)
        key, m = tgt[1], tgt[2]
        # models registered per harness run (store models) may change between runs
        m = s.models.get(key + "@" + sname) or s.models.get(key) or m
        if m is None:
            raise Unmodelled("trait call %s (self=%s)" % (callee, sname))
        s.stats.models_used[key] = s.stats.models_used.get(key, 0) + 1
        s._tg = tg
        s._self_t = self_t
        return m(s, args, callee)

    def _resolve_trait(s, frame, self_t, trait, tg, method, sname, callee):
        # user impls in the dump
        exact, structural, blanket = [], [], []
        for t, itg, ty, bl, bounds, methods, cself, mod in s.impls:
            if t != trait or method not in methods:
                continue
            if itg and tg and trait in ("From", "TryFrom", "Into", "TryInto", "PartialEq", "Add", "Sub", "FromIterator", "Extend", "AsRef", "Borrow", "PartialOrd"):
                if s.canon_type(itg, mod) != s.canon_type(tg, s.fn_module(frame.fn) if frame is not None else None) and _norm_ty(itg) != _norm_ty(tg) and not re.fullmatch(r"[A-Z]\w?", tg.strip()):
                    continue
            if bl:
                blanket.append((methods[method], bounds)); continue
            ity = ty.strip()
            base = cself
            if base == sname:
                (structural if "<" in ity and base in ("Option", "Vec", "HashMap", "Box", "BTreeMap", "HashSet") else exact).append(methods[method])
        for cands in (exact, structural):
            if len(cands) > 1:
                # several impls for one outer type (`Vec<A>` / `Vec<B>`): match the full self type text
                want = _norm_ty(re.sub(r"^&(?:'\w+ )?(?:mut )?", "", self_t.strip()))
                def _same(t):
                    t = _norm_ty(re.sub(r"^&(?:'\w+ )?(?:mut )?", "", t.strip()))
                    if t == want:
                        return True
                    # `[T; N]` (const generic) against `[T; 28]`
                    a = re.fullmatch(r"\[(.*);\s*[A-Z]\w*\]", t); b = re.fullmatch(r"\[(.*);\s*\d+\w*\]", want)
                    return bool(a and b and a.group(1).strip() == b.group(1).strip())
                cc = [f for f in cands if _same(s.impl_self_text(f))]
                if len(cc) == 1:
                    cands = cc
            if len(cands) == 1:
                return ("fn", cands[0])
            if len(cands) > 1:
                raise Unmodelled("ambiguous impl %s for %s::%s" % (trait, sname, method))
        if blanket and (trait, method) not in s.model_first:
            # the blanket impl applies if its bound has an impl for this type in the dump
            for f, bounds in blanket:
                need = []
                for clause in _bound_clauses(bounds):
                    if ":" not in clause:
                        continue
                    rhs = clause.split(":", 1)[1]
                    for b in split_top(rhs, "+"):
                        b = strip_generics(b.strip().lstrip("?"))
                        if b and b not in ("Sized", "Debug", "Clone", "Send", "Sync") and not b.startswith("'"):
                            need.append(b)
                if all(any(r[0] == n and r[6] == sname for r in s.impls) or n in ("Into",) for n in need):
                    return ("fn", f)
        # trait default method in the dump
        f = s.trait_defaults.get((trait, method))
        if f is not None and any(r[0] == trait and r[6] == sname for r in s.impls):
            return ("fn", f)
        if f is not None and not s.is_std_trait(trait):
            return ("fn", f)
        key = "%s::%s" % (trait, method)
        return ("model", key, s.models.get(key + "@" + sname) or s.models.get(key))

    model_first = set()

    def is_std_trait(s, trait):
        return trait in ("Iterator", "IntoIterator", "Clone", "PartialEq", "Eq", "Deref", "DerefMut", "From", "Into", "TryFrom", "TryInto", "Default", "Debug", "Display", "Hash", "Ord", "PartialOrd", "Try", "FromResidual", "Extend", "FromIterator", "Index", "IndexMut", "Neg", "Add", "Sub", "AddAssign", "SubAssign", "ToString", "ToOwned", "AsRef", "Borrow", "Drop", "Future", "IntoFuture", "Fn", "FnMut", "FnOnce", "Not", "Sum", "FromStr", "Error")

    def call_callable(s, f, args):
        while isinstance(f, Ref):
            inner = f.get()
            if isinstance(inner, (Closure, FnItem, Ref)):
                fref = f
                f = inner
                if isinstance(f, Closure):
                    return s._call_closure(f, fref, args)
            else:
                break
        if isinstance(f, Closure):
            return s._call_closure(f, None, args)
        if isinstance(f, FnItem):
            if f.name.startswith("ctor "):
                segs = f.name[5:].split("::")
                r = s.mk_variant(segs[-2], segs[-1], list(args), segs[-3] if len(segs) >= 3 else None) if len(segs) >= 2 else None
                if r is not None:
                    return r
                q, d = s.tdef(segs[-1], "struct")
                if d is not None and segs[-1] not in s.by_short:
                    return Agg(q, None, 0, list(args))
                return s.dispatch(None, f.name[5:], args)
            return s.dispatch(None, f.name, args)
        raise Unmodelled("call of %s" % type(f).__name__)

    def _call_closure(s, clo, cref, args):
        fn = s.closures.get(clo.span)
        if fn is None:
            raise Unmodelled("closure body for %s not in the dump" % clo.span)
        selfty = fn.args[0][1].strip()
        if selfty.startswith("&"):
            first = cref if cref is not None else ref_to_value(clo)
        else:
            first = clo
        return s.call_fn(fn, [first] + list(args), clo.tparams)


class _CallM:
    def __init__(s, dest, call, ret):
        s.g = {1: dest, 2: call, 4: ret}

    def group(s, i):
        return s.g[i]


def _top_assign(st):
    """index of the first ` = ` outside every bracket (type annotations inside places may
    contain `Output = ..`)"""
    d = 0
    i, n = 0, len(st)
    while i < n:
        c = st[i]
        if c == '"':
            j = i + 1
            while j < n and st[j] != '"':
                j += 2 if st[j] == "\\" else 1
            i = j + 1
            continue
        if c in "([{<":
            d += 1
        elif c in ")]}":
            d -= 1
        elif c == ">" and i > 0 and st[i - 1] not in "-=":
            d -= 1
        elif d == 0 and st.startswith(" = ", i):
            return i
        i += 1
    return None


def models_deref_fields(a):
    return a.fields if isinstance(a, Agg) else []


def _match_open(t, o, c):
    """index of the bracket `o` that matches the final `c` of t"""
    d = 0
    for i in range(len(t) - 1, -1, -1):
        if t[i] == c:
            d += 1
        elif t[i] == o:
            d -= 1
            if d == 0:
                return i
    return None


def _bound_clauses(bounds):
    """`<T: A + B, U> X: C<Y = Z>, ...` -> ['T: A + B', 'U', 'X: C<Y = Z>']"""
    b = bounds.strip()
    out = []
    if b.startswith("<"):
        d = 0
        for i, c in enumerate(b):
            if c == "<":
                d += 1
            elif c == ">" and b[i - 1] != "-":
                d -= 1
                if d == 0:
                    break
        out += split_top(b[1:i])
        b = b[i + 1:]
    out += split_top(b.strip().rstrip(","))
    return [x.strip() for x in out if x.strip()]


def _norm_ty(t):
    t = re.sub(r"\b(\w+::)+", "", t)
    return re.sub(r"\s+", "", t)


def _unescape_bytes(t):
    out, i = bytearray(), 0
    while i < len(t):
        c = t[i]
        if c == "\\":
            n = t[i + 1]
            if n == "x":
                out.append(int(t[i + 2:i + 4], 16)); i += 4; continue
            if n == "u":
                j = t.index("}", i)
                out += chr(int(t[i + 3:j], 16)).encode(); i = j + 1; continue
            out += {"n": b"\n", "t": b"\t", "r": b"\r", "0": b"\0", "\\": b"\\", '"': b'"', "'": b"'"}[n]
            i += 2; continue
        out += c.encode(); i += 1
    return bytes(out)


def _unescape(t):
    return _unescape_bytes(t)
