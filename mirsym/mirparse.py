"""Parser for rustc's `-Zunpretty=mir` text + the impl headers / type definitions of the
repository's sources (nothing about the repository's types is hard-coded)."""
import re, os

REPO = os.environ.get("VERIF_REPO", "/repo")


class Fn:
    __slots__ = ("name", "args", "ret", "locals", "blocks", "crate", "impl_span", "parsed", "is_const")

    def __init__(s, name, args, ret, locals_, blocks, crate, is_const=False):
        s.name, s.args, s.ret, s.locals, s.blocks, s.crate = name, args, ret, locals_, blocks, crate
        s.parsed = {}
        s.is_const = is_const
        m = re.search(r"<impl at ([^:>]+):(\d+):(\d+): (\d+):(\d+)>", name)
        s.impl_span = (m.group(1), int(m.group(2)), int(m.group(3))) if m else None

    def __repr__(s):
        return "Fn(%s)" % s.name


def split_top(s, sep=","):
    """split on `sep` at nesting depth 0 of ()[]{}<> (string literals respected)"""
    out, depth, cur, i, n = [], 0, [], 0, len(s)
    while i < n:
        c = s[i]
        if c == '"':
            j = i + 1
            while j < n and s[j] != '"':
                j += 2 if s[j] == "\\" else 1
            cur.append(s[i:j + 1]); i = j + 1; continue
        if c == "'" and i + 2 < n and (s[i + 2] == "'" or (s[i + 1] == "\\" and s.find("'", i + 2) > 0 and s.find("'", i + 2) - i <= 8)):
            j = s.find("'", i + 2 if s[i + 1] != "\\" else i + 3)
            cur.append(s[i:j + 1]); i = j + 1; continue
        if c in "([{":
            depth += 1
        elif c in ")]}":
            depth -= 1
        elif c == "<":
            # generic bracket unless it is a comparison (never at statement level in MIR)
            depth += 1
        elif c == ">":
            if i > 0 and s[i - 1] in "-=":
                pass
            else:
                depth -= 1
        if c == sep and depth == 0:
            out.append("".join(cur).strip()); cur = []
        else:
            cur.append(c)
        i += 1
    t = "".join(cur).strip()
    if t:
        out.append(t)
    return out


def parse_mir(text, crate):
    fns = {}
    lines = text.split("\n")
    i, n = 0, len(lines)
    while i < n:
        l = lines[i]
        m1 = re.match(r"(?:const|static) ([^=]+?): ([^=]+?) = (const .*);$", l)
        if m1:
            f = Fn(m1.group(1).strip(), [], m1.group(2).strip(), {"_0": m1.group(2).strip()}, {"bb0": ["_0 = " + m1.group(3), "return"]}, crate, True)
            fns[f.name] = f
            i += 1
            continue
        is_fn = l.startswith("fn ") and l.rstrip().endswith("{")
        is_const = (l.startswith("const ") or l.startswith("static ")) and l.rstrip().endswith("= {")
        if is_fn or is_const:
            j = i + 1
            while j < n and not lines[j].startswith("}"):
                j += 1
            body = lines[i + 1:j]
            if is_fn:
                head = l[3:].rstrip()[:-1].rstrip()
                # split "NAME(ARGS) -> RET"
                k = head.rfind(") -> ")
                ret = head[k + 5:].strip()
                # find the '(' matching that ')'
                depth, p = 0, k
                while p >= 0:
                    if head[p] == ")":
                        depth += 1
                    elif head[p] == "(":
                        depth -= 1
                        if depth == 0:
                            break
                    p -= 1
                name, args = head[:p], head[p + 1:k]
                argl = []
                for a in split_top(args):
                    mm = re.match(r"(_\d+): (.*)", a, re.S)
                    argl.append((mm.group(1), mm.group(2)))
            else:
                head = l.split(" ", 1)[1].rstrip()[:-3].rstrip()   # NAME: TYPE
                k = head.rfind(": ")
                # the type may itself contain ': ' only inside <impl at a:b: c:d>, which precedes
                m = re.match(r"(.*promoted\[\d+\]|[^:]*(?:::[^:]+)*?): (.*)$", head)
                name, ret = (m.group(1), m.group(2)) if m else (head[:k], head[k + 2:])
                argl = []
            locs, blocks, cur = {}, {}, None
            for b in body:
                t = b.strip()
                if not t or t.startswith("//"):
                    continue
                mm = re.match(r"let (?:mut )?(_\d+): (.*);$", t)
                if mm:
                    locs[mm.group(1)] = mm.group(2); continue
                mm = re.match(r"(bb\d+)(?: \(cleanup\))?: \{$", t)
                if mm:
                    cur = mm.group(1); blocks[cur] = []; continue
                if t == "}":
                    if cur is not None and b.startswith("    }"):
                        cur = None
                    continue
                if cur is not None:
                    if t.startswith(("debug ", "scope ")):
                        continue
                    blocks[cur].append(t[:-1] if t.endswith(";") else t)
            f = Fn(name, argl, ret, locs, blocks, crate, is_const)
            for a, ty in argl:
                locs[a] = ty
            locs["_0"] = locs.get("_0", ret)
            fns[name] = f
            i = j
        i += 1
    return fns


# --------------------------------------------------------------------------- source side

_src_cache = {}


def src_lines(path):
    if path not in _src_cache:
        p = path if os.path.isabs(path) else os.path.join(REPO, path)
        try:
            _src_cache[path] = open(p).read().split("\n")
        except OSError:
            _src_cache[path] = []
    return _src_cache[path]


DERIVES = {"Clone", "PartialEq", "Eq", "Hash", "Debug", "Default", "PartialOrd", "Ord", "Serialize", "Deserialize", "Copy", "Error"}


_sg_cache = {}


def strip_generics(t):
    r = _sg_cache.get(t)
    if r is None:
        r = _strip_generics(t)
        _sg_cache[t] = r
    return r


def _strip_generics(t):
    """`a::b::Foo<X, Y>` -> `Foo`; keeps `&`, tuples etc. untouched otherwise"""
    t = t.strip()
    t = re.sub(r"::<", "<", t)
    out, depth = [], 0
    for c in t:
        if c == "<":
            depth += 1
        elif c == ">":
            depth -= 1
        elif depth == 0:
            out.append(c)
    return "".join(out).split("::")[-1].strip()


def impl_header(path, line, col):
    """-> (trait_or_None, trait_generics_text, self_type_text, is_blanket, bounds) for the impl
    whose header starts at path:line:col (1-based) — or for the derive at that position"""
    L = src_lines(path)
    if not L or line > len(L):
        return None
    text = L[line - 1][col - 1:]
    m = re.match(r"([A-Za-z_:]+)", text)
    word = m.group(1) if m else ""
    if not text.startswith("impl") and word.split("::")[-1] in DERIVES:
        # derive: find the item the attribute is attached to
        k = line
        while k <= len(L) and not re.match(r"\s*(pub(\([^)]*\))? )?(struct|enum) ", L[k - 1]):
            k += 1
        if k > len(L):
            return None
        name = re.match(r"\s*(?:pub(?:\([^)]*\))? )?(?:struct|enum) (\w+)", L[k - 1]).group(1)
        return (word.split("::")[-1], "", name, False, "")
    # join lines until the opening brace
    k, hdr = line, text
    while "{" not in hdr and k < len(L):
        hdr += " " + L[k].strip(); k += 1
    hdr = hdr.split("{")[0].strip()
    m = re.match(r"impl\s*(<[^>]*(?:<[^>]*>[^>]*)*>)?\s*(.*)$", hdr)
    if not m:
        return None
    gens, rest = m.group(1) or "", m.group(2)
    where = ""
    if " where " in rest:
        rest, where = rest.split(" where ", 1)
    rest = rest.strip()
    # split "Trait for Type" at top level
    depth, pos = 0, -1
    for i, c in enumerate(rest):
        if c == "<":
            depth += 1
        elif c == ">":
            depth -= 1
        elif depth == 0 and rest.startswith(" for ", i):
            pos = i; break
    if pos >= 0:
        trait, ty = rest[:pos].strip(), rest[pos + 5:].strip()
    else:
        trait, ty = None, rest
    tparams = [g.split(":")[0].strip() for g in split_top(gens[1:-1])] if gens else []
    tparams = [g for g in tparams if g and not g.startswith("'") and not g.startswith("const ")]
    tg = ""
    if trait and "<" in trait:
        tg = trait[trait.index("<") + 1:trait.rindex(">")]
    blanket = ty in tparams
    bounds = (gens + " " + where)
    return (strip_generics(trait) if trait else None, tg, ty, blanket, bounds)


_typedefs = None


def typedefs():
    """{TypeName: [(module, 'struct', [field names]) | (module, 'enum', [(variant, [field names])])]}
    parsed from every .rs file under /repo/crates and /repo/bin (simple item syntax only); a name
    defined in several modules (`Error`) has several entries"""
    global _typedefs
    if _typedefs is not None:
        return _typedefs
    out = {}
    for root in ("crates", "bin"):
        for dp, _, files in os.walk(os.path.join(REPO, root)):
            if "/target" in dp:
                continue
            for f in sorted(files):
                if f.endswith(".rs"):
                    stem = f[:-3]
                    if stem in ("mod", "lib", "main"):
                        stem = os.path.basename(dp) if stem == "mod" else os.path.basename(os.path.dirname(dp)).replace("-", "_")
                    one = {}
                    _scan_types(open(os.path.join(dp, f)).read(), one)
                    for name, d in one.items():
                        out.setdefault(name, []).append((stem,) + d)
    _typedefs = out
    return out


def _strip_comments(src):
    src = re.sub(r"//[^\n]*", "", src)
    src = re.sub(r"/\*.*?\*/", "", src, flags=re.S)
    return src


def _scan_types(src, out):
    src = _strip_comments(src)
    for m in re.finditer(r"\b(struct|enum)\s+(\w+)\s*(<[^>{(;]*>)?\s*(where[^{;(]*)?([{(;])", src):
        kind, name, opener = m.group(1), m.group(2), m.group(5)
        if opener == ";":
            out.setdefault(name, ("struct", []))
            continue
        # find matching close
        start = m.end() - 1
        depth, i = 0, start
        close = {"{": "}", "(": ")"}[opener]
        while i < len(src):
            if src[i] == opener:
                depth += 1
            elif src[i] == close:
                depth -= 1
                if depth == 0:
                    break
            i += 1
        body = src[start + 1:i]
        body = re.sub(r"#\[[^\]]*\]", "", body)
        if kind == "struct":
            if opener == "(":
                fields = [str(k) for k in range(len(split_top(body)))]
            else:
                fields = []
                for part in split_top(body):
                    mm = re.match(r"(?:pub(?:\([^)]*\))?\s+)?(r#)?(\w+)\s*:", part.strip())
                    if mm:
                        fields.append(mm.group(2))
            out.setdefault(name, ("struct", fields))
        else:
            variants = []
            for part in split_top(body):
                part = part.strip()
                if not part:
                    continue
                mm = re.match(r"(\w+)\s*(.*)$", part, re.S)
                vname, rest = mm.group(1), mm.group(2).strip()
                if rest.startswith("("):
                    fs = [str(k) for k in range(len(split_top(rest[1:rest.rindex(")")])))]
                elif rest.startswith("{"):
                    fs = []
                    for fp in split_top(rest[1:rest.rindex("}")]):
                        m2 = re.match(r"(?:pub\s+)?(\w+)\s*:", fp.strip())
                        if m2:
                            fs.append(m2.group(1))
                else:
                    fs = []
                variants.append((vname, fs))
            out.setdefault(name, ("enum", variants))


def foreign_types(crate_prefix, relpath):
    """type definitions of a dependency, read from the cargo registry copy that Cargo.lock
    pins (so that field / variant order is not hard-coded): -> {Name: (kind, data)}"""
    import glob
    lock = open(os.path.join(REPO, "Cargo.lock")).read()
    m = re.search(r'name = "%s"\nversion = "([^"]+)"' % re.escape(crate_prefix), lock)
    ver = m.group(1) if m else "*"
    c = sorted(glob.glob(os.path.expanduser("~/.cargo/registry/src/*/%s-%s/%s" % (crate_prefix, ver, relpath))))
    if not c:
        raise RuntimeError("source of %s %s not in the cargo registry" % (crate_prefix, ver))
    out = {}
    _scan_types(open(c[0]).read(), out)
    return out


def foreign_crate_types(crate_name):
    """every struct/enum definition of a dependency pinned by Cargo.lock, from the cargo
    registry: -> {Name: [(module, kind, data)]} with module = era directory / file stem"""
    import glob
    lock = open(os.path.join(REPO, "Cargo.lock")).read()
    m = re.search(r'name = "%s"\nversion = "([^"]+)"' % re.escape(crate_name), lock)
    ver = m.group(1) if m else "*"
    roots = sorted(glob.glob(os.path.expanduser("~/.cargo/registry/src/*/%s-%s/src" % (crate_name, ver))))
    out = {}
    if not roots:
        return out
    for dp, _, files in os.walk(roots[0]):
        for f in sorted(files):
            if not f.endswith(".rs"):
                continue
            stem = f[:-3]
            if stem in ("mod", "model", "lib"):
                stem = os.path.basename(dp) if stem != "lib" else crate_name.replace("-", "_")
            one = {}
            try:
                _scan_types(open(os.path.join(dp, f)).read(), one)
            except Exception:
                continue
            for name, d in one.items():
                out.setdefault(name, []).append((stem,) + d)
    return out


_fn_generics = {}


def fn_generics(name):
    """generic parameter list of the free function / method `name` from the repository's
    sources (MIR headers omit it): [('const', 'SIZE'), ('type', 'T'), ...]"""
    if name in _fn_generics:
        return _fn_generics[name]
    out = []
    pat = re.compile(r"\bfn\s+%s\s*<([^>]*(?:<[^>]*>[^>]*)*)>\s*\(" % re.escape(name))
    for root in ("crates", "bin"):
        for dp, _, files in os.walk(os.path.join(REPO, root)):
            if "/target" in dp:
                continue
            for f in files:
                if f.endswith(".rs"):
                    m = pat.search(open(os.path.join(dp, f)).read())
                    if m:
                        for g in split_top(m.group(1)):
                            g = g.strip()
                            if g.startswith("'"):
                                continue
                            if g.startswith("const "):
                                out.append(("const", g[6:].split(":")[0].strip()))
                            else:
                                out.append(("type", g.split(":")[0].strip()))
                        _fn_generics[name] = out
                        return out
    _fn_generics[name] = out
    return out


_field_types = None


def field_types():
    """{TypeName: ('struct', [(field, type)]) | ('tuple', [types]) | ('enum', {variant: ('unit',) | ('tuple', [types]) | ('struct', [(f, t)])})}
    for the repository's types (used to load serde JSON into the value domain)"""
    global _field_types
    if _field_types is not None:
        return _field_types
    out = {}
    for root in ("crates", "bin"):
        for dp, _, files in os.walk(os.path.join(REPO, root)):
            if "/target" in dp:
                continue
            for f in sorted(files):
                if f.endswith(".rs"):
                    _scan_field_types(open(os.path.join(dp, f)).read(), out)
    _field_types = out
    return out


def _fields_with_types(body):
    fs = []
    for part in split_top(body):
        mm = re.match(r"(?:pub(?:\([^)]*\))?\s+)?(?:r#)?(\w+)\s*:\s*(.*)$", part.strip(), re.S)
        if mm:
            fs.append((mm.group(1), mm.group(2).strip()))
    return fs


def _tuple_types(body):
    return [re.sub(r"^pub(?:\([^)]*\))?\s+", "", x.strip()) for x in split_top(body)]


def _scan_field_types(src, out):
    src = _strip_comments(src)
    for m in re.finditer(r"\b(struct|enum)\s+(\w+)\s*(<[^>{(;]*>)?\s*(where[^{;(]*)?([{(;])", src):
        kind, name, opener = m.group(1), m.group(2), m.group(5)
        if opener == ";" or name in out:
            continue
        start = m.end() - 1
        depth, i = 0, start
        close = {"{": "}", "(": ")"}[opener]
        while i < len(src):
            if src[i] == opener:
                depth += 1
            elif src[i] == close:
                depth -= 1
                if depth == 0:
                    break
            i += 1
        body = re.sub(r"#\[[^\]]*\]", "", src[start + 1:i])
        if kind == "struct":
            out[name] = ("tuple", _tuple_types(body)) if opener == "(" else ("struct", _fields_with_types(body))
        else:
            vs = {}
            for part in split_top(body):
                part = part.strip()
                if not part:
                    continue
                mm = re.match(r"(\w+)\s*(.*)$", part, re.S)
                vname, rest = mm.group(1), mm.group(2).strip()
                if rest.startswith("("):
                    vs[vname] = ("tuple", _tuple_types(rest[1:rest.rindex(")")]))
                elif rest.startswith("{"):
                    vs[vname] = ("struct", _fields_with_types(rest[1:rest.rindex("}")]))
                else:
                    vs[vname] = ("unit",)
            out[name] = ("enum", vs)
