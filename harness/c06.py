"""C06 — a template closes exactly when its reported parameters and queries are supplied.

Real MIR of tx3-tir's Composite / Apply machinery (components, try_map_components, params,
queries, apply_args, apply_inputs, apply_fees, reduce, is_constant for every node kind and
every Tx field) and of tx3-resolver's safe_apply_args.  One template per *position* a parameter,
query or `fees` leaf can occupy; the leaf's argument value is symbolic; an independent walk over
the value tree (not using Composite) is the oracle."""
import z3
from values import *
import models
from harness.hutil import *

CRATES = ["tx3-tir", "tx3-resolver"]
ASSUMPTIONS = ["C06: one leaf (parameter / nested query / fees) per template position, 50 positions covering every Tx field, every Expression container, every BuiltInOp / Coerce / CompilerOp operand and the fields of a nested InputQuery; argument values symbolic i128; UTxO sets of one UTxO"]


def walk_unresolved(v, out, seen=None):
    """independent structural walk: names of unresolved Param nodes anywhere in the value"""
    v = models.deref(v)
    if isinstance(v, BoxV):
        return walk_unresolved(v.v, out)
    if isinstance(v, Agg):
        if v.ty == "Param" and v.variant in ("ExpectValue", "ExpectInput", "ExpectFees"):
            nm = models.deref(v.fields[0]).text() if v.fields else "fees"
            out.append((v.variant, nm))
            if v.variant == "ExpectInput":
                walk_unresolved(v.fields[1], out)
            return
        for f in v.fields:
            walk_unresolved(f, out)
    elif isinstance(v, (VecM, SliceV)):
        for x in v.items:
            walk_unresolved(x, out)
    elif isinstance(v, MapM):
        for k, p, x in v.entries:
            if p is not False:
                walk_unresolved(k, out); walk_unresolved(x, out)


def leaf(T, name):
    ty = T.v("Type", "Int")
    return T.v("Expression", "EvalParam", BoxV(T.v("Param", "ExpectValue", StrM(name, True), ty)))


def fees_leaf(T):
    return T.v("Expression", "EvalParam", BoxV(T.v("Param", "ExpectFees")))


def query(T, address=None, min_amount=None, ref=None, many=False):
    return T.st("InputQuery", address=address or T.address([0x60] + [1] * 28), min_amount=min_amount or T.none(), ref=ref or T.none(), many=many, collateral=False)


def input_leaf(T, name, q=None):
    return T.v("Expression", "EvalParam", BoxV(T.v("Param", "ExpectInput", StrM(name, True), q or query(T))))


def ada(T, amount):
    return T.assets([T.asset(T.none(), T.none(), amount)])


def builtin(T, variant, *xs):
    return T.v("Expression", "EvalBuiltIn", BoxV(T.v("BuiltInOp", variant, *xs)))


def coerce(T, variant, x):
    return T.v("Expression", "EvalCoerce", BoxV(T.v("Coerce", variant, x)))


def compiler_op(T, variant, *xs):
    return T.v("Expression", "EvalCompiler", BoxV(T.v("CompilerOp", variant, *xs)))


def out(T, address=None, datum=None, amount=None):
    return T.st("Output", address=address or T.address([0x60] + [2] * 28), datum=datum or T.none(), amount=amount or ada(T, T.num(5)), optional=False)


def inp(T, name="src", utxos=None, redeemer=None):
    return T.st("Input", name=StrM(name, True), utxos=utxos if utxos is not None else input_leaf(T, name), redeemer=redeemer or T.none())


TX_FIELDS = ["fees", "references[0]", "inputs[0].redeemer", "outputs[0].address", "outputs[0].datum", "outputs[0].amount", "asset.policy", "asset.name",
             "validity.since", "validity.until", "mints[0].amount", "mints[0].redeemer", "burns[0].amount", "burns[0].redeemer", "adhoc[0].data", "adhoc[0].data.nested",
             "collateral[0].utxos", "signers[0]", "metadata[0].key", "metadata[0].value"]


def positions(T, kind="param"):
    """name -> (builder(leaf) -> Tx, expected parameter names, expected query names, has_compiler_op);
    kind = which leaf sits at the position: a parameter, the datum of an input (`vault`), or `fees`"""
    P = "p"
    if kind == "param":
        L = lambda: leaf(T, P)
    elif kind == "input":
        L = lambda: coerce(T, "IntoDatum", input_leaf(T, "vault"))
    else:
        L = lambda: fees_leaf(T)
    pos = {}

    def add(name, tx, params=("p",), queries=(), cop=False):
        if kind == "input":
            params, queries = (), tuple(queries) + ("vault",)
        elif kind == "fees":
            params = ()
        pos[name if kind == "param" else "%s@%s" % (kind, name)] = (tx, set(params), set(queries), cop)
    add("fees", lambda: mk_tx(T, fees=L()))
    add("references[0]", lambda: mk_tx(T, references=[L()]))
    add("inputs[0].redeemer", lambda: mk_tx(T, inputs=[inp(T, redeemer=L())]), queries=("src",))
    add("outputs[0].address", lambda: mk_tx(T, outputs=[out(T, address=L())]))
    add("outputs[0].datum", lambda: mk_tx(T, outputs=[out(T, datum=L())]))
    add("outputs[0].amount", lambda: mk_tx(T, outputs=[out(T, amount=ada(T, L()))]))
    add("asset.policy", lambda: mk_tx(T, outputs=[out(T, amount=T.assets([T.asset(L(), T.bytes([1]), T.num(1))]))]))
    add("asset.name", lambda: mk_tx(T, outputs=[out(T, amount=T.assets([T.asset(T.bytes([7] * 28), L(), T.num(1))]))]))
    add("validity.since", lambda: mk_tx(T, validity=some(T.st("Validity", since=L(), until=T.none()))))
    add("validity.until", lambda: mk_tx(T, validity=some(T.st("Validity", since=T.none(), until=L()))))
    add("mints[0].amount", lambda: mk_tx(T, mints=[T.st("Mint", amount=T.assets([T.asset(T.bytes([7] * 28), T.bytes([1]), L())]), redeemer=T.none())]))
    add("mints[0].redeemer", lambda: mk_tx(T, mints=[T.st("Mint", amount=T.assets([T.asset(T.bytes([7] * 28), T.bytes([1]), T.num(1))]), redeemer=L())]))
    add("burns[0].amount", lambda: mk_tx(T, burns=[T.st("Mint", amount=T.assets([T.asset(T.bytes([7] * 28), T.bytes([1]), L())]), redeemer=T.none())]))
    add("burns[0].redeemer", lambda: mk_tx(T, burns=[T.st("Mint", amount=T.assets([T.asset(T.bytes([7] * 28), T.bytes([1]), T.num(1))]), redeemer=L())]))
    add("adhoc[0].data", lambda: mk_tx(T, adhoc=[T.st("AdHocDirective", name=StrM("d", True), data=MapM("HashMap", [[StrM("k", True), True, L()], [StrM("other", True), True, T.num(1)]]))]))
    add("adhoc[0].data.nested", lambda: mk_tx(T, adhoc=[T.st("AdHocDirective", name=StrM("d", True), data=MapM("HashMap", [[StrM("k", True), True, T.list([T.num(1), L()])]]))]))
    add("collateral[0].utxos", lambda: mk_tx(T, collateral=[T.st("Collateral", utxos=L())]))
    add("signers[0]", lambda: mk_tx(T, signers=some(T.st("Signers", signers=VecM([T.bytes([1] * 28), L()])))))
    add("metadata[0].key", lambda: mk_tx(T, metadata=[T.st("Metadata", key=L(), value=T.string("v"))]))
    add("metadata[0].value", lambda: mk_tx(T, metadata=[T.st("Metadata", key=T.num(674), value=L())]))
    d = lambda e: mk_tx(T, outputs=[out(T, datum=e)])
    add("list.elem", lambda: d(T.list([T.num(1), L(), T.num(3)])))
    add("map.key", lambda: d(T.map([(T.num(1), T.num(2)), (L(), T.num(4))])))
    add("map.value", lambda: d(T.map([(T.num(1), L())])))
    add("tuple.0", lambda: d(T.tuple(L(), T.num(2))))
    add("tuple.1", lambda: d(T.tuple(T.num(1), L())))
    add("struct.field", lambda: d(T.struct(1, [T.num(1), L()])))
    add("struct.nested", lambda: d(T.struct(0, [T.list([T.struct(2, [L()])])])))
    add("add.lhs", lambda: d(builtin(T, "Add", L(), T.num(1))))
    add("add.rhs", lambda: d(builtin(T, "Add", T.num(1), L())))
    add("sub.lhs", lambda: d(builtin(T, "Sub", L(), T.num(1))))
    add("sub.rhs", lambda: d(builtin(T, "Sub", T.num(1), L())))
    add("concat.lhs", lambda: d(builtin(T, "Concat", L(), T.none())))
    add("concat.rhs", lambda: d(builtin(T, "Concat", T.none(), L())))
    add("negate", lambda: d(builtin(T, "Negate", L())))
    add("noop", lambda: d(builtin(T, "NoOp", L())))
    add("property.operand", lambda: d(builtin(T, "Property", T.list([L(), T.num(2)]), T.num(0))))
    add("property.index", lambda: d(builtin(T, "Property", T.list([T.num(10), T.num(20)]), L())))
    add("coerce.into_datum", lambda: d(coerce(T, "IntoDatum", L())))
    add("coerce.into_assets", lambda: mk_tx(T, outputs=[out(T, amount=coerce(T, "IntoAssets", ada(T, L())))]))
    add("coerce.noop", lambda: d(coerce(T, "NoOp", L())))
    add("compiler.build_script_address", lambda: mk_tx(T, outputs=[out(T, address=compiler_op(T, "BuildScriptAddress", L()))]), cop=True)
    add("compiler.min_utxo", lambda: mk_tx(T, outputs=[out(T, amount=compiler_op(T, "ComputeMinUtxo", L()))]), cop=True)
    add("compiler.slot_to_time", lambda: d(compiler_op(T, "ComputeSlotToTime", L())), cop=True)
    add("compiler.time_to_slot", lambda: mk_tx(T, validity=some(T.st("Validity", since=T.none(), until=compiler_op(T, "ComputeTimeToSlot", L())))), cop=True)
    add("query.address", lambda: mk_tx(T, inputs=[inp(T, utxos=input_leaf(T, "src", query(T, address=L())))]), queries=("src",))
    add("query.min_amount", lambda: mk_tx(T, inputs=[inp(T, utxos=input_leaf(T, "src", query(T, min_amount=ada(T, L()))))]), queries=("src",))
    add("query.ref", lambda: mk_tx(T, inputs=[inp(T, utxos=input_leaf(T, "src", query(T, ref=L())))]), queries=("src",))
    add("fees.in_output", lambda: mk_tx(T, outputs=[out(T, amount=fees_leaf(T))]), params=())
    add("fees.in_sub", lambda: mk_tx(T, outputs=[out(T, amount=builtin(T, "Sub", ada(T, T.num(100)), fees_leaf(T)))]), params=())
    add("fees.in_query", lambda: mk_tx(T, inputs=[inp(T, utxos=input_leaf(T, "src", query(T, min_amount=fees_leaf(T))))]), params=(), queries=("src",))
    add("input.in_output", lambda: mk_tx(T, inputs=[inp(T)], outputs=[out(T, amount=builtin(T, "Sub", coerce(T, "IntoAssets", input_leaf(T, "src")), fees_leaf(T)))]), params=(), queries=("src",))
    add("input.in_datum", lambda: mk_tx(T, outputs=[out(T, datum=coerce(T, "IntoDatum", input_leaf(T, "vault")))]), params=(), queries=("vault",))
    add("input.in_reference", lambda: mk_tx(T, references=[input_leaf(T, "oracle")]), params=(), queries=("oracle",))
    return pos


def one_utxo(T, tag):
    u = T.st("Utxo", ref=utxo_ref(T, [tag] * 32, 0), address=VecM([0x60] + [1] * 28),
             assets=Agg("CanonicalAssets", None, 0, [MapM("HashMap", [[cls_naked(), True, 5000000]])]), datum=some(T.num(9)), script=none())
    return MapM("HashSet", [[u, True, unit()]])


def keys_of(m):
    return {models.deref(k).text() for k, p, _ in models.deref(m).entries if p is True}


def h_position(ctx, tier, seed, names):
    eng = ctx.eng; T = TIR(eng)
    name = names[eng.choose(len(names), "position")]
    pos = positions(T, name.split("@")[0] if "@" in name else "param")
    build, want_params, want_queries, cop = pos[name]
    tx = build()
    # ground truth from the independent walk
    found = []
    walk_unresolved(tx, found)
    true_params = {n for k, n in found if k == "ExpectValue"}
    true_queries = {n for k, n in found if k == "ExpectInput"}
    assert true_params == want_params and true_queries == want_queries, (name, found)
    rp = keys_of(eng.call_fn(eng.fns["find_params"], [ref_to_value(tx)]))
    rq = keys_of(eng.call_fn(eng.fns["find_queries"], [ref_to_value(tx)]))
    ctx.require(true_params <= rp, "[%s] every parameter that can reach the transaction is reported" % name, shape="parameter at %s not reported" % name)
    ctx.require(rp <= true_params, "[%s] only parameters of the template are reported" % name, shape="spurious parameter at %s" % name)
    ctx.require(true_queries == rq, "[%s] input queries are reported exactly" % name, shape="query at %s not reported" % name)
    # supply everything that is reported (and nothing else), in two stage orders
    x = ctx.sym_int("arg", "i128")
    args = MapM("BTreeMap", [[StrM(p, True), True, T.v("ArgValue", "Int", x)] for p in sorted(rp)])
    # a query may also be closed with an empty UTxO set (an `input*` that matched nothing): still supplied
    empty = bool(rq) and eng.choose(2, "UTxO set supplied for each query: one UTxO / the empty set") == 1
    inputs = MapM("BTreeMap", [[StrM(q, True), True, MapM("HashSet", []) if empty else one_utxo(T, 0xA0 + i)] for i, q in enumerate(sorted(rq))])
    fee = ctx.sym_int("fee", "u64")
    order = eng.choose(3, "stage order")
    stages = {"args": lambda t: eng.call_fn(eng.fns["apply_args"], [t, ref_to_value(args)]),
              "inputs": lambda t: eng.call_fn(eng.fns["apply_inputs"], [t, ref_to_value(inputs)]),
              "fees": lambda t: eng.call_fn(eng.fns["apply_fees"], [t, fee])}
    seq = [("args", "inputs", "fees"), ("fees", "inputs", "args"), ("inputs", "fees", "args")][order]
    cur = models.vclone(eng, tx)
    try:
        for st in seq:
            r = models.deref(stages[st](cur))
            if r.variant != "Ok":
                ctx.violation("[%s] stage %s fails on a well-formed template" % (name, st), shape="apply stage fails at %s" % name)
                return
            cur = r.fields[0]
        r = models.deref(eng.call_fn(eng.fns["reduce::reduce"], [cur]))
    except Panic as p:
        eng.stats.panic_paths += 1
        if p.kind == "overflow":
            return
        ctx.violation("[%s] apply/reduce panicked: %s" % (name, p.kind), site=p.site, shape="apply/reduce panics at %s" % name)
        return
    if r.variant != "Ok" and empty:
        return      # reading a datum / value off an empty set may fail: not a closure failure
    if r.variant != "Ok":
        # a value-dependent reduction error (index out of range, overflow) is not a closure failure
        ctx.require(name in ("property.index", "property.operand", "negate", "add.lhs", "add.rhs", "sub.lhs", "sub.rhs", "concat.lhs", "concat.rhs"),
                    "[%s] reduce fails only where the value can be out of range" % name, shape="reduce fails at %s" % name)
        return
    final = r.fields[0]
    left = []
    walk_unresolved(final, left)
    ctx.require(not left, "[%s] after applying everything reported and reducing, no unresolved parameter remains (%s)" % (name, left), shape="unresolved %s left at %s" % (sorted({k for k, _ in left}), name))
    const = eng.call_fn(eng.find(trait="Apply", self_ty="Tx", method="is_constant"), [ref_to_value(final)])
    if not cop:
        ctx.require(const is True or const == True, "[%s] the closed template is constant" % name, shape="closed template not constant at %s" % name)


def h_missing_arg(ctx, tier, seed):
    """safe_apply_args refuses exactly when a reported parameter is absent — for argument maps
    that may also carry any number of undeclared extras"""
    eng = ctx.eng; T = TIR(eng)
    tx = mk_tx(T, fees=leaf(T, "a"), outputs=[out(T, datum=T.list([leaf(T, "b"), leaf(T, "c")]))])
    anytir = eng.mk_variant("AnyTir", "V1Beta0", [tx])
    decl = ["a", "b", "c"]
    extras = ["x1", "x2", "x3", "zz"]
    pres = {k: ctx.sym_bool("has_" + k) for k in decl + extras}
    args = MapM("BTreeMap", [[StrM(k, True), pres[k], T.v("ArgValue", "Int", 7)] for k in decl + extras])
    r = models.deref(eng.call_fn(eng.fns["safe_apply_args"], [anytir, ref_to_value(args)]))
    all_there = z3.And(*[pres[k] for k in decl])
    if r.variant == "Ok":
        ctx.require(all_there, "arguments are applied only when every reported parameter is supplied", shape="missing argument not refused")
        left = []
        walk_unresolved(r.fields[0], left)
        ctx.require(not left, "with every reported parameter supplied no parameter is left")
    else:
        e = models.deref(r.fields[0])
        ctx.require(e.variant == "MissingTxArg", "the refusal is a missing-argument error", shape="refusal is not MissingTxArg")
        ctx.require(z3.Not(all_there), "a complete argument map is not refused", shape="complete argument map refused")
        if e.variant == "MissingTxArg":
            q, d = eng.tdef("tx3_resolver::Error", "enum", "MissingTxArg")
            fs = [fs_ for vn, fs_ in d[2] if vn == "MissingTxArg"][0]
            key = models.deref(e.fields[fs.index("key")]).text()
            ctx.require(key in decl and True, "the error names a declared parameter")
            if key in decl:
                ctx.require(z3.Not(pres[key]), "the error names a parameter that is really missing", shape="MissingTxArg names a supplied parameter")


def _h(name, fn, bounds, tier="quick", **kw):
    d = dict(name=name, fn=fn, crates=CRATES, bounds=bounds, tier=tier)
    d.update(kw)
    return d


_NAMES = None


def _names():
    global _NAMES
    if _NAMES is None:
        class _T:           # names only
            def __getattr__(s, k):
                return lambda *a, **kw: None
        _NAMES = ["fees", "references[0]", "inputs[0].redeemer", "outputs[0].address", "outputs[0].datum", "outputs[0].amount", "asset.policy", "asset.name",
                  "validity.since", "validity.until", "mints[0].amount", "mints[0].redeemer", "burns[0].amount", "burns[0].redeemer", "adhoc[0].data", "adhoc[0].data.nested",
                  "collateral[0].utxos", "signers[0]", "metadata[0].key", "metadata[0].value", "list.elem", "map.key", "map.value", "tuple.0", "tuple.1", "struct.field",
                  "struct.nested", "add.lhs", "add.rhs", "sub.lhs", "sub.rhs", "concat.lhs", "concat.rhs", "negate", "noop", "property.operand", "property.index",
                  "coerce.into_datum", "coerce.into_assets", "coerce.noop", "compiler.build_script_address", "compiler.min_utxo", "compiler.slot_to_time", "compiler.time_to_slot",
                  "query.address", "query.min_amount", "query.ref", "fees.in_output", "fees.in_sub", "fees.in_query", "input.in_output", "input.in_datum", "input.in_reference"]
    return _NAMES


def _chunk(k, n):
    names = _names()
    return [x for i, x in enumerate(names) if i % n == k]


NCH = 6
HARNESSES = [_h("c06_positions_%d" % k, (lambda k: lambda ctx, tier, seed: h_position(ctx, tier, seed, _chunk(k, NCH)))(k),
                "template positions %s; 3 stage orders; argument and fee symbolic" % ", ".join(_chunk(k, NCH))) for k in range(NCH)]
for _k in ("input", "fees"):
    for _c in range(2):
        _nm = ["%s@%s" % (_k, f) for i, f in enumerate(TX_FIELDS) if i % 2 == _c]
        HARNESSES.append(_h("c06_%s_leaf_%d" % (_k, _c), (lambda nm: lambda ctx, tier, seed: h_position(ctx, tier, seed, nm))(_nm),
                            "the %s leaf at the transaction fields %s; 3 stage orders" % ("input-datum" if _k == "input" else "fees", ", ".join(f for i, f in enumerate(TX_FIELDS) if i % 2 == _c))))
HARNESSES.append(_h("c06_missing_arg", h_missing_arg, "3 declared parameters + 4 undeclared extras, each with symbolic presence in the argument map (128 maps)"))
