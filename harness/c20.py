"""C20 — resolution does not depend on what the compiler instance compiled before.

Two executions of the real `resolve_tx` (async state machine of the dump) with the real Cardano
`Compiler` (compile, reduce_op, compute_min_utxo from MIR): one on a freshly built instance, one on
an instance whose private state (`latest_tx_body`) is whatever an earlier resolution may have left
there — absent, or a body with 0..2 arbitrary outputs.  The two outcomes must be the same:
Ok with the same payload, hash and fee, or Err of the same kind.  CBOR encoders and digests are
uninterpreted *injective* functions (decode . encode = id), an encoded length is an uninterpreted
function of the encoded value: two outcomes are reported different only when the structures they
are computed from differ for some value of these functions."""
import os
import z3
from values import *
import models
from harness.hutil import *
from harness.c06 import fees_leaf, ada, out, builtin
from harness.c07 import compiler_value
from harness.c14 import foreign_struct

CRATES = ["tx3-resolver", "tx3-tir", "tx3-cardano"]
ASSUMPTIONS = ["C20: the state an earlier resolution can leave in the instance is the field latest_tx_body (the only field compile() writes): None or a body with 0..2 outputs of arbitrary content; target templates use min_utxo(k), k in {0, 1}, in an output amount together with `fees`; encoders/digests are injective uninterpreted functions, encoded lengths uninterpreted (< 2^32); no inputs (the store is not consulted)"]


def err_kind(v, depth=3):
    v = models.deref(v)
    if isinstance(v, BoxV):
        v = models.deref(v.v)
    if isinstance(v, Agg) and v.variant and depth:
        inner = [err_kind(f, depth - 1) for f in v.fields]
        inner = [i for i in inner if i]
        return "%s::%s%s" % (v.ty.split("::")[-1], v.variant, ("(" + inner[0] + ")") if inner else "")
    return ""


def new_compiler(eng):
    """a Compiler as the real constructor builds it (every field, including ones a later version adds)"""
    return compiler_value(eng)


def resolve(ctx, comp, tx, cap):
    eng = ctx.eng
    anytir = eng.mk_variant("AnyTir", "V1Beta0", [models.vclone(eng, tx)])
    args = MapM("BTreeMap", [])
    store = Agg("Store", None, 0, [])
    return models.deref(eng.block_on(eng.call_fn(eng.fns["resolve_tx"], [anytir, ref_to_value(args), ref_to_value(comp), ref_to_value(store), cap])))


def native_replay(eng, tx, hist, T, earlier_tx=None):
    """the counterexample on the real build: resolve an earlier template with `hist` outputs on one
    instance, then the target on it and on a fresh one; True = the outcomes differ natively"""
    import native, tirdump
    if hist < 0:
        earlier = []
    elif earlier_tx is not None:
        earlier = [tirdump.dump(eng, earlier_tx, "Tx")]
    else:
        earlier = [tirdump.dump(eng, mk_tx(T, fees=fees_leaf(T), outputs=[out(T, address=T.address([0x60] + [9 + i] * 28), amount=ada(T, T.num(3000000 + i))) for i in range(hist)]), "Tx")]
    case = dict(cmd="history", tir=tirdump.dump(eng, tx, "Tx"), earlier=earlier, rounds=3)
    r = native.run([case])[0]
    return r["fresh"] != r["reused"], r


def h_history(ctx, tier, seed, n_outputs=2):
    eng = ctx.eng; T = TIR(eng)
    k = eng.choose(n_outputs, "output sized by min_utxo")
    minutxo = T.v("Expression", "EvalCompiler", BoxV(T.v("CompilerOp", "ComputeMinUtxo", T.num(k))))
    outs = [out(T, amount=ada(T, T.num(2000000))) for _ in range(n_outputs)]
    outs[k] = out(T, amount=builtin(T, "Add", minutxo, ada(T, T.num(7))))
    tx = mk_tx(T, fees=fees_leaf(T), outputs=outs)
    hist = eng.choose(7, "state left by earlier resolutions") - 1
    # -1: none; 0..2: an arbitrary body with that many outputs left in latest_tx_body;
    #  3 / 4: a real earlier resolution on the instance (a template with one output / without outputs)
    fresh = new_compiler(eng)
    used = new_compiler(eng)
    if 0 <= hist <= 2:
        names = eng.tdef("Compiler", "struct")[1][2]
        body = some(Agg("KeepRaw", None, 0, [foreign_struct(eng, "TransactionBody", outputs=VecM([Opaque("earlier_output%d" % i) for i in range(hist)]))]))
        used.fields[names.index("latest_tx_body")] = body
    elif hist >= 3:
        if hist == 5:
            # an earlier resolution that uses min_utxo itself and *fails* in its second pass, after the
            # compiler ops of that pass were evaluated: `until_slot: Ada(1000) - fees` is a valid slot with
            # the first pass's fee of 0 and negative with any real fee
            earlier = mk_tx(T, fees=fees_leaf(T), outputs=[out(T, address=T.address([0x60] + [9] * 28), amount=builtin(T, "Add", T.v("Expression", "EvalCompiler", BoxV(T.v("CompilerOp", "ComputeMinUtxo", T.num(k)))), ada(T, T.num(11)))),
                                                            out(T, address=T.address([0x60] + [8] * 28), amount=ada(T, T.num(3000000)))][:max(k + 1, 1)],
                            validity=some(T.st("Validity", since=T.none(), until=builtin(T, "Sub", ada(T, T.num(1000)), fees_leaf(T)))))
        else:
            earlier = mk_tx(T, fees=fees_leaf(T), outputs=[out(T, address=T.address([0x60] + [9] * 28), amount=ada(T, T.num(3000000)))] if hist == 3 else [])
        ctx.earlier_tx = earlier
        try:
            resolve(ctx, used, earlier, 3)
        except Panic as p:
            eng.stats.panic_paths += 1
            ctx.violation("resolve_tx panicked on the earlier template: %s" % p.kind, site=p.site, shape="resolve_tx panics")
            return
    try:
        a = resolve(ctx, fresh, tx, 3)
        b = resolve(ctx, used, tx, 3)
    except Panic as p:
        eng.stats.panic_paths += 1
        ctx.violation("resolve_tx panicked: %s" % p.kind, site=p.site, shape="resolve_tx panics")
        return
    what = "no earlier body" if hist < 0 else ("an earlier body with %d output(s)" % hist if hist <= 2 else "after really resolving a template with %d output(s)" % (1 if hist == 3 else 0) if hist <= 4 else "after an earlier resolution that used min_utxo and failed in its second pass")

    def replay(vals):
        differs, r = native_replay(eng, tx, hist, T, getattr(ctx, 'earlier_tx', None) if hist >= 3 else None)
        return True if differs else None       # a history of one particular earlier template agreeing natively decides nothing
    if a.variant != b.variant:
        ctx.require(False, "fresh instance: %s, reused instance (%s): %s %s" % (a.variant, what, b.variant, err_kind(b.fields[0]) if b.variant == "Err" else ""),
                      shape="outcome kind depends on the instance's history (min_utxo(%d))" % k, replay=replay)
        return
    if a.variant == "Err":
        ctx.require(err_kind(a.fields[0]) == err_kind(b.fields[0]), "the same kind of error on a fresh and a reused instance", shape="error kind depends on the instance's history")
        return
    cq, cd = eng.tdef("CompiledTx", "struct")
    ra, rb = models.deref(a.fields[0]), models.deref(b.fields[0])
    confirmed = None
    for f in ("payload", "hash", "fee"):
        i = cd[2].index(f)
        cond = z3b(models.veq(eng, ra.fields[i], rb.fields[i]))
        if eng.check(cond, "same " + f) is None:
            ctx.require(cond, "the %s is the same on a fresh and on a reused instance (%s)" % (f, what))
            continue
        # the values are computed from different structures; whether the bytes differ depends on
        # encoded lengths the engine leaves uninterpreted: decided on the real build
        if confirmed is None:
            confirmed = native_replay(eng, tx, hist, T, getattr(ctx, 'earlier_tx', None) if hist >= 3 else None)[0]
        if confirmed:
            ctx.require(cond, "the %s is the same on a fresh and on a reused instance (%s)" % (f, what), shape="%s depends on the instance's history" % f, replay=lambda v: True)
        elif len(ctx.samples) < 3:
            ctx.samples.append(dict(harness=ctx.hname, obligation="same %s (%s)" % (f, what), result="computed from different structures, but equal on the real build for the earlier templates tried: not reported (encoded lengths are uninterpreted)"))


def _h(name, fn, bounds, tier="quick", **kw):
    d = dict(name=name, fn=fn, crates=CRATES, bounds=bounds, tier=tier)
    d.update(kw)
    return d


HARNESSES = [
    _h("c20_history_min_utxo", h_history, "template with 2 outputs, min_utxo(k) for k in {0,1} + fees; earlier state: none / an arbitrary body with 0, 1, 2 outputs left behind / a real earlier resolution of a template with 1 or 0 outputs, or of one that uses min_utxo and fails in its second pass; resolve_tx with max_optimize_rounds = 3 (up to 5 passes)", max_paths=50000),
]


# ---- a target with an input: a stale value can make the *first* pass fail ---------------------------

def failing_history(T, k, datum=None):
    """uses min_utxo(k) and fails in its second pass, after that pass's compiler ops were evaluated"""
    outs = [out(T, address=T.address([0x60] + [9] * 28), datum=datum, amount=builtin(T, "Add", T.v("Expression", "EvalCompiler", BoxV(T.v("CompilerOp", "ComputeMinUtxo", T.num(k)))), ada(T, T.num(11)))),
            out(T, address=T.address([0x60] + [8] * 28), amount=ada(T, T.num(3000000)))][:max(k + 1, 1)]
    if k == 1:
        outs = [outs[1], outs[0]]
    return mk_tx(T, fees=fees_leaf(T), outputs=outs, validity=some(T.st("Validity", since=T.none(), until=builtin(T, "Sub", ada(T, T.num(1000)), fees_leaf(T)))))


def h_history_input(ctx, tier, seed):
    """target: `input src { from: A, min_amount: fees + min_utxo(0) }`, one output `src - fees`, over a
    store holding one UTxO of symbolic value; instance: fresh, or reused after a resolution that used
    min_utxo and failed in its second pass.  Same Ok / same kind of error on both."""
    from harness import c03
    eng = ctx.eng
    ctx.amount_bits = 48
    store = c03.Store(ctx, 1)
    store.install(eng)
    T = store.T
    eng.assume(z3.And(store.addr[0] == c03.ADDR_A, z3.Not(store.has_tok[0])))
    minutxo = T.v("Expression", "EvalCompiler", BoxV(T.v("CompilerOp", "ComputeMinUtxo", T.num(0))))
    iq = T.st("InputQuery", address=T.address(c03.addr_bytes(c03.ADDR_A)), min_amount=builtin(T, "Add", fees_leaf(T), minutxo), ref=T.none(), many=False, collateral=False)
    src = T.v("Expression", "EvalParam", BoxV(T.v("Param", "ExpectInput", StrM("src", True), iq)))
    tx = mk_tx(T, fees=fees_leaf(T), inputs=[T.st("Input", name=StrM("src", True), utxos=src, redeemer=T.none())],
               outputs=[out(T, address=T.address(c03.addr_bytes(c03.ADDR_A)), amount=builtin(T, "Sub", T.v("Expression", "EvalCoerce", BoxV(T.v("Coerce", "IntoAssets", models.vclone(eng, src)))), fees_leaf(T)))])
    with_hist = eng.choose(2, "instance: fresh / reused after a failing resolution that used min_utxo") == 1
    fresh, used = new_compiler(eng), new_compiler(eng)
    try:
        if with_hist:
            resolve(ctx, used, failing_history(T, 0), 3)
        a = resolve(ctx, fresh, tx, 3)
        b = resolve(ctx, used, tx, 3)
    except Panic as p:
        eng.stats.panic_paths += 1
        if p.kind == "overflow":
            return
        ctx.violation("resolve_tx panicked: %s" % p.kind, site=p.site, shape="resolve_tx panics")
        return
    ka = "Ok" if a.variant == "Ok" else err_kind(a.fields[0])
    kb = "Ok" if b.variant == "Ok" else err_kind(b.fields[0])
    if os.environ.get("C20_DEBUG"):
        print("PATH", with_hist, ka, kb)
    if ka == kb:
        ctx.require(True, "same outcome kind on a fresh and on a reused instance")
        return
    if not with_hist:
        ctx.violation("two fresh instances disagree: %s vs %s" % (ka, kb), shape="outcome kind differs between two fresh instances")
        return
    # the difference rests on encoded lengths the engine leaves uninterpreted (how large the earlier
    # transaction's output was): searched for on the real build with a datum-heavy earlier output
    import native, tirdump
    if getattr(ctx, "_native_hist", None) is None:
        big = T.bytes([0x5A] * 500)
        earlier = [tirdump.dump(eng, failing_history(T, 0, datum=big), "Tx")]
        hit = None
        for L in (1000000, 1500000, 2000000, 2500000, 3000000, 3500000, 4000000):
            u = dict(ref=dict(txid=[0xC0] * 32, index=0), address=c03.addr_bytes(c03.ADDR_A), assets_list=[["naked", str(L)]], datum=None)
            r = native.run([dict(cmd="history", tir=tirdump.dump(eng, tx, "Tx"), earlier=earlier, rounds=3, utxos=[u])])[0]
            if r["fresh"] != r["reused"]:
                hit = (L, r["fresh"], r["reused"])
                break
        ctx._native_hist = hit or False
    if ctx._native_hist:
        L, f_, r_ = ctx._native_hist
        ctx.require(False, "fresh instance: %s, reused instance: %s (real build, wallet of %d lovelace: fresh %s, reused %s)" % (ka, kb, L, str(f_)[:60], str(r_)[:60]),
                    shape="outcome kind depends on the instance's history (target with an input)", replay=lambda v: True)
    elif len(ctx.samples) < 3:
        ctx.samples.append(dict(harness=ctx.hname, obligation="same outcome kind (%s vs %s)" % (ka, kb), result="possible under uninterpreted encoded lengths, equal on the real build for the wallets tried: not reported"))


HARNESSES.append(_h("c20_history_with_input", h_history_input, "target with one input (min_amount fees + min_utxo(0)) over a store of one UTxO (value symbolic, < 2^48); instance fresh / reused after a failing resolution that used min_utxo; resolve_tx with max_optimize_rounds = 3",
                    max_paths=50000, time_limit=1200))
