"""C01 — the compiled transaction is exactly what the template denotes (translation validation
per corpus program).

The repository's *real* front end (parse -> analyze -> lower, run natively by the helper binary
/verif/frontend on each corpus program in several whitespace/comment layouts) produces the TIR;
engine M then executes the real back end on it from MIR — apply_args, apply_inputs, apply_fees,
reduce, the compiler-op visitor with tx3-cardano's reduce_op, reduce, compile_tx_body,
compile_auxiliary_data — with the integer arguments, the UTxO contents and the fee symbolic, and
z3 compares every field of the assembled body with the denotation written by hand for that
program (mathematical integers, per-class sums)."""
import os, re, json, subprocess, hashlib
import z3
from values import *
import models
import tirload
from harness.hutil import *
from harness.c07 import compiler_value
from harness.c08 import network
from harness.c09 import check_pd

CRATES = ["tx3-tir", "tx3-cardano"]
ASSUMPTIONS = ["C01: programs = the 13 corpus programs of /verif/corpus x 3 layouts (enumerated, not solver-quantified); integer arguments and UTxO lovelace/token amounts symbolic in [0, 2^16) (quick) / [0, 2^40) (thorough), the fee below 2^32; one UTxO per input block; addresses, policies and byte arguments concrete; byte-level CBOR (pallas' encoder) and min_utxo are outside"]

HERE = os.path.dirname(os.path.dirname(os.path.abspath(__file__)))
FRONTEND = os.path.join(HERE, ".cache", "frontend-target", "release", "tx3-verif-frontend")
POL = [0x6b, 0x9c, 0x45, 0x6a, 0xa6, 0x50, 0xcb, 0x80, 0x8a, 0x9a, 0xb5, 0x43, 0x26, 0xe0, 0x39, 0xd5, 0x23, 0x5e, 0xd6, 0x9f, 0x06, 0x9c, 0x96, 0x64, 0xa8, 0xfe, 0x5b, 0x69]
ADDR = {"alice": [0x60] + [0xA1] * 28, "bob": [0x60] + [0xB2] * 28}


def build_frontend():
    env = dict(os.environ, CARGO_NET_OFFLINE="true", CARGO_TARGET_DIR=os.path.join(HERE, ".cache", "frontend-target"))
    import shutil
    shutil.copy("/repo/Cargo.lock", os.path.join(HERE, "frontend", "Cargo.lock"))
    p = subprocess.run(["cargo", "build", "--release", "--offline"], cwd=os.path.join(HERE, "frontend"), env=env, capture_output=True, text=True)
    if p.returncode != 0:
        raise Unmodelled("front-end helper does not build: " + p.stderr[-400:])


def layout(src, k):
    """insignificant whitespace / comments only (string literals are left alone)"""
    if k == 0:
        return src
    parts = re.split(r'("[^"]*")', src)
    out = []
    for i, part in enumerate(parts):
        if i % 2:
            out.append(part)
        elif k == 1:
            part = re.sub(r"\n", "\n// noise: tx t(x: Int) { output { to: Nobody, amount: Ada(1), } }\n", part)
            out.append(re.sub(r" +", "   ", part))
        else:
            part = re.sub(r"([{},;])", r" /* c */ \1 \n", part)
            out.append(re.sub(r"\n", "\r\n\t", part))
    return "".join(out)


_tir_cache = {}


def lowered(prog, k):
    key = (prog, k)
    if key not in _tir_cache:
        src = layout(open(os.path.join(HERE, "corpus", prog + ".tx3")).read(), k)
        d = os.path.join(HERE, ".cache", "corpus_tmp")
        os.makedirs(d, exist_ok=True)
        path = os.path.join(d, "%s.%d.tx3" % (prog, k))
        open(path, "w").write(src)
        if not os.path.exists(FRONTEND) or not _tir_cache.get("built"):
            build_frontend()
            _tir_cache["built"] = True
        out = subprocess.run([FRONTEND, path], capture_output=True, text=True).stdout
        try:
            j = json.loads(out)
        except Exception:
            j = {"error": "front end crashed: " + out[:200]}
        _tir_cache[key] = j
    return _tir_cache[key]


def utxo(T, tag, lovelace, tokens=(), datum=None, addr="alice"):
    ents = [[cls_naked(), True, lovelace]]
    for name, amt in tokens:
        ents.append([cls_defined(POL, list(name)), True, amt])
    u = T.st("Utxo", ref=utxo_ref(T, [tag] * 32, 0), address=VecM(ADDR[addr]), assets=Agg("CanonicalAssets", None, 0, [MapM("HashMap", ents)]),
             datum=some(datum) if datum is not None else none(), script=none())
    return MapM("HashSet", [[u, True, unit()]])


def decode_output(eng, o):
    o = models.deref(o)
    while isinstance(o, Agg) and o.ty != "GenPostAlonzoTransactionOutput":
        o = models.deref(o.fields[0])
    names = eng.tdef("GenPostAlonzoTransactionOutput", "struct")[1][2]
    g = lambda n: models.deref(o.fields[names.index(n)])
    addr = g("address")
    while isinstance(addr, Agg):
        addr = models.deref(addr.fields[0])
    val = g("value")
    assets = {}
    if val.variant == "Coin":
        coin = val.fields[0]
    else:
        coin = val.fields[0]
        for pk, pp, pv in models.deref(val.fields[1]).entries:
            if pp is False:
                continue
            pol = tuple(models.deref(models.deref(pk).fields[0]).items)
            for ak, ap, av in models.deref(pv).entries:
                if ap is False:
                    continue
                nm = models.deref(ak)
                while isinstance(nm, Agg):
                    nm = models.deref(nm.fields[0])
                q = models.deref(av)
                assets[(pol, tuple(nm.items))] = q.fields[0] if isinstance(q, Agg) else q
    d = g("datum_option")
    datum = None
    if d.variant == "Some":
        x = models.deref(d.fields[0])
        while isinstance(x, Agg) and x.ty != "PlutusData":
            x = models.deref(x.fields[0])
        datum = x
    return dict(address=list(addr.items), coin=coin, assets=assets, datum=datum)


def subst_model(eng, v, m):
    """deep copy of a model value with every z3 term replaced by its value under the model m"""
    if isinstance(v, bool) or isinstance(v, int) or v is None:
        return v
    if is_sym(v):
        x = m.eval(v, model_completion=True)
        return z3.is_true(x) if z3.is_bool(x) else x.as_long()
    if isinstance(v, Ref):
        return subst_model(eng, v.get(), m)
    if isinstance(v, BoxV):
        return BoxV(subst_model(eng, v.v, m))
    if isinstance(v, Agg):
        return Agg(v.ty, v.variant, v.vidx, [subst_model(eng, f, m) for f in v.fields])
    if isinstance(v, VecM):
        return VecM([subst_model(eng, x, m) for x in v.items], v.kind)
    if isinstance(v, SliceV):
        return VecM([subst_model(eng, x, m) for x in v.items])
    if isinstance(v, StrM):
        return StrM([subst_model(eng, b, m) for b in v.bytes], v.owned)
    if isinstance(v, MapM):
        out = []
        for k, p, x in v.entries:
            p2 = subst_model(eng, p, m)
            if p2:
                out.append([subst_model(eng, k, m), True, subst_model(eng, x, m)])
        return MapM(v.kind, out)
    return v


def _signed(x, bits=128):
    return x - (1 << bits) if x >= (1 << (bits - 1)) else x


def native_case(eng, tirj, args, inputs, fee, m):
    """the concrete `pipeline` case of the native replay binary for the counterexample model m"""
    import tirdump
    cargs, cinputs = subst_model(eng, args, m), subst_model(eng, inputs, m)
    a = {}
    for k, p, v in cargs.entries:
        d = tirdump.dump(eng, v, "ArgValue")
        if isinstance(d, dict) and "Int" in d:
            d = {"Int": _signed(int(d["Int"]))}
        a[models.deref(k).text()] = d
    ins = {}
    for k, p, us in cinputs.entries:
        lst = []
        for u, pu, _ in models.deref(us).entries:
            u = models.deref(u)
            un = eng.tdef("Utxo", "struct")[1][2]
            g = lambda f: models.deref(u.fields[un.index(f)])
            assets = []
            for ck, cp, cv in models.deref(g("assets").fields[0]).entries:
                ck = models.deref(ck)
                cls = "naked" if ck.variant == "Naked" else [list(models.deref(x).items) for x in ck.fields]
                assets.append([cls, str(_signed(int(cv)))])
            d = g("datum")
            lst.append(dict(ref=tirdump.dump(eng, g("ref"), "UtxoRef"), address=[int(b) for b in g("address").items], assets_list=assets,
                            datum=tirdump.dump(eng, d.fields[0], "Expression") if d.variant == "Some" else None))
        ins[models.deref(k).text()] = lst
    x = m.eval(fee, model_completion=True).as_long() if is_sym(fee) else int(fee)
    return dict(cmd="pipeline", tir=tirj, args=a, inputs=ins, fee=x)


def native_view(want):
    """what the native binary observed: 'error' | dict(fee, ttl, start, outputs=[address, coin, assets])"""
    if "body" in want and isinstance(want["body"], dict) and "outputs" in want["body"]:
        b = want["body"]
        outs = []
        for o in b["outputs"]:
            po = o.get("PostAlonzo", o)
            val = po["value"]
            coin, assets = (val["Coin"], []) if "Coin" in val else (val["Multiasset"][0], sorted([[pol, nm, int(q)] for pol, mm in val["Multiasset"][1].items() for nm, q in mm.items()]))
            outs.append(dict(address=po["address"], coin=int(coin), assets=assets))
        return dict(fee=int(b["fee"]), ttl=b.get("ttl"), start=b.get("validity_interval_start"), outputs=outs)
    return "error"


def predicted_view(eng, body, m):
    """the same observation on the body engine M computed on this path, under the model m"""
    if body is None:
        return "error"
    body = subst_model(eng, body, m)
    bn = eng.tdef("TransactionBody", "struct")[1][2]
    g = lambda f: models.deref(body.fields[bn.index(f)])
    outs = []
    for o in g("outputs").items:
        d = decode_output(eng, o)
        outs.append(dict(address=bytes(d["address"]).hex(), coin=int(d["coin"]), assets=sorted([[bytes(k[0]).hex(), bytes(k[1]).hex(), int(v)] for k, v in d["assets"].items()])))
    opt = lambda v: None if v.variant != "Some" else int(v.fields[0])
    return dict(fee=int(g("fee")), ttl=opt(g("ttl")), start=opt(g("validity_interval_start")), outputs=outs)


REPLAYABLE = ("output lovelace differs", "output asset amount differs", "output address differs", "output count differs", "pipeline fails on a well-typed program",
              "body fee differs", "ttl differs", "ttl dropped", "validity start differs", "slot_to_time of a negative slot accepted")


def pipeline(ctx, tx, args, inputs, fee):
    """apply / reduce / compile from MIR; registers the native replay of this very run: under a
    counterexample model the concrete arguments go through the native binary, and what it observes
    (failure, or fee / validity / outputs) must be what engine M computed on this path"""
    eng = ctx.eng
    state = dict(body=None, done=False)
    tirj = getattr(ctx, "current_tirj", None)

    def hook(m):
        if tirj is None or not state["done"]:
            return None
        import native
        want = native.run([native_case(eng, tirj, args, inputs, fee, m)])[0]
        if "panic" in want:
            return None
        return native_view(want) == predicted_view(eng, state["body"], m)
    if hasattr(ctx, "hname"):
        ctx.replay_hook = hook
    r = _pipeline(ctx, tx, args, inputs, fee)
    state["done"] = True
    state["body"] = r[0][0] if r[0] is not None else None
    return r


def _pipeline(ctx, tx, args, inputs, fee):
    eng = ctx.eng
    comp = compiler_value(eng)
    cur = tx
    steps = [("apply_args", lambda t: eng.call_fn(eng.fns["apply_args"], [t, ref_to_value(args)])),
             ("apply_inputs", lambda t: eng.call_fn(eng.fns["apply_inputs"], [t, ref_to_value(inputs)])),
             ("apply_fees", lambda t: eng.call_fn(eng.fns["apply_fees"], [t, fee])),
             ("reduce", lambda t: eng.call_fn(eng.fns["reduce::reduce"], [t])),
             ("compiler ops", lambda t: eng.call_fn(eng.find(trait="Node", self_ty="Tx", method="apply"), [t, ref_to_value(comp)])),
             ("reduce", lambda t: eng.call_fn(eng.fns["reduce::reduce"], [t]))]
    for name, st in steps:
        r = models.deref(st(cur))
        if r.variant != "Ok":
            return None, "stage %s failed: %r" % (name, models.deref(r.fields[0]))
        cur = r.fields[0]
    b = models.deref(eng.call_fn(eng.find(short="compile_tx_body"), [ref_to_value(cur), network(eng)]))
    if b.variant != "Ok":
        return None, "compile_tx_body failed: %r" % (models.deref(b.fields[0]),)
    aux = models.deref(eng.call_fn(eng.find(short="compile_auxiliary_data"), [ref_to_value(cur)]))
    return (models.deref(b.fields[0]), aux), None


def intarg(T, v):
    return T.v("ArgValue", "Int", v)


def check_outputs(ctx, body, want, label):
    eng = ctx.eng
    bn = eng.tdef("TransactionBody", "struct")[1][2]
    outs = models.deref(body.fields[bn.index("outputs")]).items
    ctx.require(len(outs) == len(want), "[%s] the body has the outputs the template declares, in source order (%d vs %d)" % (label, len(outs), len(want)), shape="output count differs")
    for i, (o, w) in enumerate(zip(outs, want)):
        d = decode_output(eng, o)
        ctx.require(d["address"] == w["address"], "[%s] output %d goes to the address the template names" % (label, i), shape="output address differs")
        ctx.require(z3.ZeroExt(64, eng.to_bv(d["coin"], 64)) == w["coin"], "[%s] output %d carries the lovelace the template denotes" % (label, i), shape="output lovelace differs")
        wa = w.get("assets", {})
        keys = set(d["assets"]) | set(wa)
        for k in sorted(keys):
            got = z3.ZeroExt(64, eng.to_bv(d["assets"][k], 64)) if k in d["assets"] else z3.BitVecVal(0, 128)
            exp = wa.get(k, z3.BitVecVal(0, 128))
            ctx.require(got == exp, "[%s] output %d carries the native-asset amount the template denotes" % (label, i), shape="output asset amount differs")
        if w.get("datum") is None:
            ctx.require(d["datum"] is None, "[%s] output %d has no datum" % (label, i), shape="datum added")
        else:
            ctx.require(d["datum"] is not None, "[%s] output %d has its inline datum" % (label, i), shape="datum dropped")
            if d["datum"] is not None:
                check_pd(ctx, d["datum"], w["datum"], "%s out%d" % (label, i))
    return bn


def sym(ctx, name, bits=None):
    return ctx.sym_amount(name, bits or (16 if ctx.tier == "quick" else 40))


# ------------------------------------------------------------------------------ programs

def run_program(ctx, prog, k):
    eng = ctx.eng; T = TIR(eng)
    j = lowered(prog, k)
    label = "%s/layout%d" % (prog, k)
    if "error" in j or "t" not in j or (isinstance(j["t"], dict) and "error" in j["t"]):
        ctx.violation("[%s] the front end rejects a well-formed corpus program: %s" % (label, str(j)[:200]), shape="corpus program rejected by the front end")
        return
    ctx.require(not j.get("__facade_mismatch__"), "[%s] Workspace::tir(name) hands out the IR lowering produced for that transaction (differs for: %s)" % (label, j.get("__facade_mismatch__")),
                shape="Workspace hands out another transaction's IR")
    tx = tirload.load(eng, j["t"], "Tx")
    ctx.current_tirj = j["t"]
    ctx.replayable_shapes = REPLAYABLE
    fee = ctx.sym_int("fee", "u64")
    eng.assume(z3.ULT(fee, 1 << 32))
    F = z3.ZeroExt(64, fee)
    A = lambda n: T.v("ArgValue", "Address", VecM(ADDR[n]))
    bn = eng.tdef("TransactionBody", "struct")[1][2]
    spec = SPECS[prog]
    try:
        spec(ctx, T, tx, fee, F, A, label)
    except Panic as p:
        eng.stats.panic_paths += 1
        if p.kind == "overflow":
            return
        ctx.violation("[%s] the back end panicked: %s" % (label, p.kind), site=p.site, shape="pipeline panics")


def finish(ctx, tx, args, inputs, fee, label):
    r, why = pipeline(ctx, tx, args, inputs, fee)
    if r is None:
        ctx.violation("[%s] a type-correct resolution fails: %s" % (label, why[:200]), shape="pipeline fails on a well-typed program")
        return None, None
    body, aux = r
    bn = ctx.eng.tdef("TransactionBody", "struct")[1][2]
    ctx.require(ctx.eng.to_bv(body.fields[bn.index("fee")], 64) == fee, "[%s] the body fee is the applied fee" % label, shape="body fee differs")
    return body, aux


def amap(entries):
    return MapM("BTreeMap", [[StrM(k, True), True, v] for k, v in entries])


def s_p01(ctx, T, tx, fee, F, A, label):
    b_ = 10 if ctx.tier == "quick" else 32      # three-operand chains are the expensive queries
    qa, qb, qc = sym(ctx, "qa", b_), sym(ctx, "qb", b_), sym(ctx, "qc", b_)
    lov = sym(ctx, "src.lovelace")
    ctx.eng.assume(z3.And(qa - qb - qc >= 0, lov - (qa - qb - qc) - F >= 0))
    args = amap([("qa", intarg(T, qa)), ("qb", intarg(T, qb)), ("qc", intarg(T, qc)), ("alice", A("alice")), ("bob", A("bob"))])
    body, _ = finish(ctx, tx, args, amap([("src", utxo(T, 1, lov))]), fee, label)
    if body is None:
        return
    want = [dict(address=ADDR["bob"], coin=qa - qb - qc, datum=("constr", 0, [("int", qa - qb - qc), ("int", qa - (qb - qc)), ("int", qa + qb - qc + 7)])),
            dict(address=ADDR["alice"], coin=lov - (qa - qb - qc) - F)]
    check_outputs(ctx, body, want, label)


def s_p02(ctx, T, tx, fee, F, A, label):
    q, n, m = sym(ctx, "q"), sym(ctx, "n"), sym(ctx, "m")
    lov, tok = sym(ctx, "src.lovelace"), sym(ctx, "src.tok")
    e = ctx.eng
    e.assume(z3.And(n - m > 0, tok - n + m > 0, lov - q - F >= 0, q >= 0))
    args = amap([("q", intarg(T, q)), ("n", intarg(T, n)), ("m", intarg(T, m)), ("alice", A("alice")), ("bob", A("bob"))])
    body, _ = finish(ctx, tx, args, amap([("src", utxo(T, 1, lov, [(b"TOK", tok)]))]), fee, label)
    if body is None:
        return
    K = (tuple(POL), tuple(b"TOK"))
    want = [dict(address=ADDR["bob"], coin=q, assets={K: n - m}),
            dict(address=ADDR["alice"], coin=lov - q - F, assets={K: tok - n + m})]
    check_outputs(ctx, body, want, label)


def s_p03(ctx, T, tx, fee, F, A, label):
    step = sym(ctx, "step")
    lov = sym(ctx, "vault.lovelace")
    c0, b2 = sym(ctx, "vault.counter"), sym(ctx, "vault.bonus")
    ctx.eng.assume(lov - F >= 0)
    datum = T.struct(0, [T.num(c0), T.bytes([0xDE, 0xAD]), T.num(b2)])
    args = amap([("step", intarg(T, step)), ("alice", A("alice"))])
    body, _ = finish(ctx, tx, args, amap([("vault", utxo(T, 1, lov, datum=datum))]), fee, label)
    if body is None:
        return
    want = [dict(address=ADDR["alice"], coin=lov - F, datum=("constr", 0, [("int", c0 + step), ("bytes", [0xDE, 0xAD]), ("int", b2)])),
            dict(address=ADDR["alice"], coin=z3.BitVecVal(1000000, 128), datum=("constr", 1, []))]
    check_outputs(ctx, body, want, label)
    # the redeemer written on the input: Action::Bump { by: step, tag: 0xCAFE } = constructor 0
    eng = ctx.eng
    q, d = eng.tdef("Tx", "struct")
    # (redeemer data is checked on the reduced template through the real compile_redeemers in C08;
    # here only that the spend redeemer expression denotes the record the program wrote)


def s_p04(ctx, T, tx, fee, F, A, label):
    eng = ctx.eng
    n, m, until = sym(ctx, "n"), sym(ctx, "m"), sym(ctx, "until")
    lov = sym(ctx, "src.lovelace")
    eng.assume(z3.And(n > 0, m > 0, lov - F >= 0))
    note = [0x01, 0x02, 0x03]
    args = amap([("n", intarg(T, n)), ("m", intarg(T, m)), ("until", intarg(T, until)), ("note", T.v("ArgValue", "Bytes", VecM(note))), ("alice", A("alice"))])
    # the collateral block lowers to an input query named `collateral` (ref-pinned): resolve it to the referenced UTxO
    cu = T.st("Utxo", ref=utxo_ref(T, [0xCD] * 32, 1), address=VecM(ADDR["alice"]), assets=Agg("CanonicalAssets", None, 0, [MapM("HashMap", [[cls_naked(), True, 5000000]])]), datum=none(), script=none())
    body, aux = finish(ctx, tx, args, amap([("src", utxo(T, 1, lov)), ("collateral", MapM("HashSet", [[cu, True, unit()]]))]), fee, label)
    if body is None:
        return
    bn = check_outputs(ctx, body, [dict(address=ADDR["alice"], coin=lov - F, assets={(tuple(POL), tuple(b"XA")): n})], label)
    g = lambda f: models.deref(body.fields[bn.index(f)])
    # mint: +n of XA, -m of XB under the policy
    mint = g("mint")
    ctx.require(mint.variant == "Some", "[%s] the mint field is present" % label, shape="mint dropped")
    if mint.variant == "Some":
        got = {}
        for pk, pp, pv in models.deref(mint.fields[0]).entries:
            for ak, ap, av in models.deref(pv).entries:
                nm = models.deref(ak)
                while isinstance(nm, Agg):
                    nm = models.deref(nm.fields[0])
                q = models.deref(av)
                got[tuple(nm.items)] = q.fields[0] if isinstance(q, Agg) else q
        ctx.require(set(got) == {tuple(b"XA"), tuple(b"XB")}, "[%s] exactly the minted and the burned asset appear" % label, shape="mint assets differ")
        if tuple(b"XA") in got:
            ctx.require(z3.SignExt(64, eng.to_bv(got[tuple(b"XA")], 64)) == n, "[%s] minted quantity" % label, shape="mint quantity differs")
        if tuple(b"XB") in got:
            ctx.require(z3.SignExt(64, eng.to_bv(got[tuple(b"XB")], 64)) == -m, "[%s] burned quantity is negative" % label, shape="burn quantity differs")
    # validity
    s_, u_ = g("validity_interval_start"), g("ttl")
    ctx.require(s_.variant == "Some" and eng.to_bv(s_.fields[0], 64) == 5, "[%s] validity start" % label, shape="validity start differs")
    ctx.require(u_.variant == "Some" and True, "[%s] ttl present" % label)
    if u_.variant == "Some":
        ctx.require(z3.ZeroExt(64, eng.to_bv(u_.fields[0], 64)) == until, "[%s] ttl is the until_slot argument" % label, shape="ttl differs")
    # signers, references, collateral
    def first_inputs(v):
        v = models.deref(v)
        if v.variant != "Some":
            return []
        inner = models.deref(v.fields[0])
        while isinstance(inner, Agg):
            inner = models.deref(inner.fields[0])
        return inner.items
    tn = eng.tdef("TransactionInput", "struct")[1][2]
    def inp_key(it):
        it = models.deref(it)
        h = models.deref(it.fields[tn.index("transaction_id")])
        return (list(models.deref(h.fields[0]).items), it.fields[tn.index("index")])
    refs = [inp_key(x) for x in first_inputs(g("reference_inputs"))]
    ctx.require(refs == [([0xAB] * 32, 3)], "[%s] the reference input is the one written" % label, shape="reference inputs differ")
    col = [inp_key(x) for x in first_inputs(g("collateral"))]
    ctx.require(col == [([0xCD] * 32, 1)], "[%s] the collateral input is the one written (%s)" % (label, col), shape="collateral differs")
    sg = first_inputs(g("required_signers"))
    ctx.require(len(sg) == 1 and list(models.deref(models.deref(sg[0]).fields[0]).items) == ADDR["alice"][1:], "[%s] the required signer is Alice's key hash" % label, shape="signers differ")
    ins = models.deref(g("inputs"))
    while isinstance(ins, Agg):
        ins = models.deref(ins.fields[0])
    ctx.require([inp_key(x) for x in ins.items] == [([1] * 32, 0)], "[%s] the spent input is the resolved UTxO" % label, shape="inputs differ")
    # metadata
    ctx.require(aux.variant == "Ok" and models.deref(aux.fields[0]).variant == "Some", "[%s] metadata is emitted" % label, shape="metadata dropped")
    if aux.variant == "Ok" and models.deref(aux.fields[0]).variant == "Some":
        a = models.deref(models.deref(aux.fields[0]).fields[0])
        while isinstance(a, Agg) and not any(isinstance(models.deref(f), MapM) for f in a.fields if True) and a.fields:
            a = models.deref(a.fields[0])
        mm = None
        for f in a.fields:
            f = models.deref(f)
            if isinstance(f, Agg) and f.variant == "Some" and isinstance(models.deref(f.fields[0]), MapM):
                mm = models.deref(f.fields[0])
            if isinstance(f, MapM):
                mm = f
        ctx.require(mm is not None, "[%s] metadata map found" % label)
        if mm is not None:
            got = {}
            for k_, p_, v_ in mm.entries:
                v_ = models.deref(v_)
                inner = models.deref(v_.fields[0])
                while isinstance(inner, Agg):
                    inner = models.deref(inner.fields[0])
                got[k_] = (v_.variant, list(inner.items) if isinstance(inner, VecM) else inner.bytes if isinstance(inner, StrM) else inner)
            ctx.require(got == {7: ("Bytes", note), 8: ("Text", list(b"fixed text"))}, "[%s] metadata labels and values are the ones written (%s)" % (label, got), shape="metadata differs")


def s_p05(ctx, T, tx, fee, F, A, label):
    a, b, c = sym(ctx, "a"), sym(ctx, "b"), sym(ctx, "c")
    lov = sym(ctx, "src.lovelace")
    ctx.eng.assume(lov - F >= 0)
    s_ = [0x11, 0x22]
    args = amap([("a", intarg(T, a)), ("b", intarg(T, b)), ("c", intarg(T, c)), ("s", T.v("ArgValue", "Bytes", VecM(s_))), ("alice", A("alice"))])
    body, _ = finish(ctx, tx, args, amap([("src", utxo(T, 1, lov))]), fee, label)
    if body is None:
        return
    want = [dict(address=ADDR["alice"], coin=lov - F,
                 datum=("constr", 0, [("int", b), ("bytes", [0xAA, 0xBB] + s_), ("list", [("int", c), ("int", b), ("int", a)]), ("map", [(("int", b), ("int", a)), (("int", a), ("int", c))])]))]
    check_outputs(ctx, body, want, label)


def s_p06(ctx, T, tx, fee, F, A, label):
    q, base = sym(ctx, "q"), sym(ctx, "base_fee")
    lov = sym(ctx, "src.lovelace")
    ctx.eng.assume(lov - (q + base) - F >= 0)
    args = amap([("q", intarg(T, q)), ("base_fee", intarg(T, base)), ("alice", A("alice")), ("bob", A("bob"))])
    body, _ = finish(ctx, tx, args, amap([("src", utxo(T, 1, lov))]), fee, label)
    if body is None:
        return
    check_outputs(ctx, body, [dict(address=ADDR["bob"], coin=q + base), dict(address=ADDR["alice"], coin=lov - (q + base) - F)], label)


def s_p07(ctx, T, tx, fee, F, A, label):
    eng = ctx.eng
    # the harness compiler's chain cursor is slot 1000 at 5_000_000 ms: deadlines before and after it
    base = [4000000, 5000000][eng.choose(2, "deadline before / after the chain cursor")]
    deadline = z3.BitVecVal(base, 128) + sym(ctx, "deadline_offset_ms")
    lov = sym(ctx, "src.lovelace")
    eng.assume(lov - F >= 0)
    args = amap([("deadline", intarg(T, deadline)), ("alice", A("alice"))])
    body, _ = finish(ctx, tx, args, amap([("src", utxo(T, 1, lov))]), fee, label)
    if body is None:
        return
    # chain cursor of the harness compiler: slot 1000 at 5_000_000 ms
    slot = 1000 + (deadline - 5000000) / 1000          # signed division truncating toward zero, as i128 `/`
    bn = check_outputs(ctx, body, [dict(address=ADDR["alice"], coin=lov - F, datum=("constr", 0, [("int", z3.BitVecVal(5000000, 128)), ("int", slot)]))], label)
    ttl = models.deref(body.fields[bn.index("ttl")])
    ctx.require(ttl.variant == "Some", "[%s] ttl present" % label, shape="ttl dropped")
    if ttl.variant == "Some":
        ctx.require(z3.ZeroExt(64, eng.to_bv(ttl.fields[0], 64)) == slot, "[%s] ttl = time_to_slot(deadline)" % label, shape="ttl differs")


def s_p08(ctx, T, tx, fee, F, A, label):
    q = sym(ctx, "q")
    g, p = sym(ctx, "gas.lovelace"), sym(ctx, "pot.lovelace")
    ctx.eng.assume(g + p - q - F >= 0)
    args = amap([("q", intarg(T, q)), ("alice", A("alice")), ("bob", A("bob"))])
    body, _ = finish(ctx, tx, args, amap([("gas", utxo(T, 1, g)), ("pot", utxo(T, 2, p, addr="bob"))]), fee, label)
    if body is None:
        return
    check_outputs(ctx, body, [dict(address=ADDR["bob"], coin=g + p - q - F), dict(address=ADDR["alice"], coin=q)], label)


def s_p09(ctx, T, tx, fee, F, A, label):
    x, y = sym(ctx, "x"), sym(ctx, "y")
    lov = sym(ctx, "vault.lovelace")
    d0, d2, d3 = sym(ctx, "vault.first"), sym(ctx, "vault.third"), sym(ctx, "vault.fourth")
    ctx.eng.assume(lov - F >= 0)
    datum = T.struct(0, [T.num(d0), T.bytes([0xBE, 0xEF]), T.num(d2), T.num(d3)])
    args = amap([("x", intarg(T, x)), ("y", intarg(T, y)), ("alice", A("alice"))])
    body, _ = finish(ctx, tx, args, amap([("vault", utxo(T, 1, lov, datum=datum))]), fee, label)
    if body is None:
        return
    want = [dict(address=ADDR["alice"], coin=lov - F, datum=("constr", 0, [("int", y), ("bytes", [0xBE, 0xEF]), ("int", d2), ("int", x)])),
            dict(address=ADDR["alice"], coin=z3.BitVecVal(2000000, 128), datum=("constr", 2, [("int", y), ("int", x)])),
            dict(address=ADDR["alice"], coin=z3.BitVecVal(3000000, 128), datum=("constr", 1, [("int", d2)]))]
    check_outputs(ctx, body, want, label)


def s_p10(ctx, T, tx, fee, F, A, label):
    b_ = 10 if ctx.tier == "quick" else 32
    a, b, c = sym(ctx, "a", b_), sym(ctx, "b", b_), sym(ctx, "c", b_)
    lov = sym(ctx, "src.lovelace")
    ctx.eng.assume(lov - F >= 0)
    args = amap([("a", intarg(T, a)), ("b", intarg(T, b)), ("c", intarg(T, c)), ("alice", A("alice"))])
    body, _ = finish(ctx, tx, args, amap([("src", utxo(T, 1, lov))]), fee, label)
    if body is None:
        return
    want = [dict(address=ADDR["alice"], coin=lov - F, datum=("constr", 0, [("int", -a + b), ("int", a - (b - (c - 1))), ("int", (a + b) - (c + a)), ("int", -(a - b) - c)]))]
    check_outputs(ctx, body, want, label)


def s_p11(ctx, T, tx, fee, F, A, label):
    q = sym(ctx, "q")
    lov = sym(ctx, "src.lovelace")
    ctx.eng.assume(z3.And(lov - q - F >= 0))
    owner = [0x60] + [0xA1] * 28
    args = amap([("q", intarg(T, q)), ("owner", T.v("ArgValue", "Address", VecM(owner)))])
    body, _ = finish(ctx, tx, args, amap([("src", utxo(T, 1, lov))]), fee, label)
    if body is None:
        return
    K = (tuple(POL), tuple(b"TICKET"))
    script_addr = [0x70] + POL          # testnet enterprise script address of the policy hash
    want = [dict(address=script_addr, coin=q, assets={K: z3.BitVecVal(1, 128)},
                 datum=("constr", 0, [("bytes", owner), ("bytes", POL), ("int", q)])),
            dict(address=owner, coin=lov - q - F, assets={K: z3.BitVecVal(1, 128)})]
    check_outputs(ctx, body, want, label)


def s_p12(ctx, T, tx, fee, F, A, label):
    eng = ctx.eng
    idx = eng.choose(3, "index argument")
    lov = sym(ctx, "src.lovelace")
    n = [sym(ctx, "numbers%d" % i) for i in range(3)]
    last, val = sym(ctx, "last"), sym(ctx, "inner.val")
    eng.assume(lov - F >= 0)
    datum = T.struct(0, [T.list([T.num(x) for x in n]), T.struct(0, [T.num(val), T.bytes([7, 7])]), T.num(last)])
    args = amap([("idx", intarg(T, idx)), ("alice", A("alice"))])
    body, _ = finish(ctx, tx, args, amap([("src", utxo(T, 1, lov, datum=datum))]), fee, label)
    if body is None:
        return
    want = [dict(address=ADDR["alice"], coin=lov - F,
                 datum=("constr", 0, [("list", [("int", n[2]), ("int", n[idx]), ("int", last)]), ("constr", 0, [("int", val), ("bytes", [7, 7])]), ("int", n[1] - last)]))]
    check_outputs(ctx, body, want, label)


def s_p13(ctx, T, tx, fee, F, A, label):
    eng = ctx.eng
    n = sym(ctx, "n")
    lov = sym(ctx, "src.lovelace")
    eng.assume(z3.And(lov - F >= 0, n > 0))
    s_ = [0x31, 0x32, 0x33]
    args = amap([("s", T.v("ArgValue", "Bytes", VecM(s_))), ("n", intarg(T, n)), ("alice", A("alice"))])
    body, _ = finish(ctx, tx, args, amap([("src", utxo(T, 1, lov))]), fee, label)
    if body is None:
        return
    K = (tuple(POL), tuple(b"COIN"))
    bn = check_outputs(ctx, body, [dict(address=ADDR["alice"], coin=lov - F, assets={K: 50 + n},
                                        datum=("constr", 0, [("bytes", s_ + [0xFF, 0x00]), ("bytes", [0x01] + s_ + s_)]))], label)
    mint = models.deref(body.fields[bn.index("mint")])
    ctx.require(mint.variant == "Some", "[%s] mint present" % label, shape="mint dropped")
    if mint.variant == "Some":
        tot = None
        for pk, pp, pv in models.deref(mint.fields[0]).entries:
            for ak, ap, av in models.deref(pv).entries:
                q = models.deref(av)
                tot = q.fields[0] if isinstance(q, Agg) else q
        ctx.require(tot is not None and True, "[%s] one net mint entry" % label)
        if tot is not None:
            ctx.require(z3.SignExt(64, eng.to_bv(tot, 64)) == 50 + n, "[%s] net mint = 100 + n - 50" % label, shape="net mint differs")


def metadata_map(aux):
    """Ok(Some(aux data)) -> {label: (kind, value)}; None when absent"""
    if aux.variant != "Ok" or models.deref(aux.fields[0]).variant != "Some":
        return None
    a = models.deref(models.deref(aux.fields[0]).fields[0])
    mm = None
    stack = [a]
    while stack and mm is None:
        cur = models.deref(stack.pop())
        if isinstance(cur, MapM):
            mm = cur
        elif isinstance(cur, Agg):
            stack += list(cur.fields)
    if mm is None:
        return None
    got = {}
    for k_, p_, v_ in mm.entries:
        v_ = models.deref(v_)
        inner = models.deref(v_.fields[0])
        while isinstance(inner, Agg):
            inner = models.deref(inner.fields[0])
        got[k_] = (v_.variant, list(inner.items) if isinstance(inner, VecM) else inner.bytes if isinstance(inner, StrM) else inner)
    return got


def s_p14(ctx, T, tx, fee, F, A, label):
    """slot_to_time of a slot before / after the chain tip, of tip_slot() - back, and an integer
    metadata value over the whole i128 range"""
    eng = ctx.eng
    at, back = sym(ctx, "at"), sym(ctx, "back")
    code = ctx.sym_int("code", "i128")
    lov = sym(ctx, "src.lovelace")
    eng.assume(lov - F >= 0)
    args = amap([("at", intarg(T, at)), ("back", intarg(T, back)), ("code", intarg(T, code)), ("alice", A("alice"))])
    r, why = pipeline(ctx, tx, args, amap([("src", utxo(T, 1, lov))]), fee)
    if r is None:
        # slot_to_time refuses a negative slot: the only legitimate failure of this program
        ctx.require(back > 1000, "[%s] a type-correct resolution fails only for a slot before 0: %s" % (label, why[:160]), shape="pipeline fails on a well-typed program")
        return
    body, aux = r
    ctx.require(back <= 1000, "[%s] a negative slot is refused" % label, shape="slot_to_time of a negative slot accepted")
    ctx.require(eng.to_bv(body.fields[eng.tdef("TransactionBody", "struct")[1][2].index("fee")], 64) == fee, "[%s] the body fee is the applied fee" % label, shape="body fee differs")
    # chain cursor of the harness compiler: slot 1000 at 5_000_000 ms; one slot = 1000 ms
    then_ms = 5000000 + (at - 1000) * 1000
    back_ms = 5000000 - back * 1000
    check_outputs(ctx, body, [dict(address=ADDR["alice"], coin=lov - F, datum=("constr", 0, [("int", then_ms), ("int", back_ms)]))], label)
    fits = z3.And(code >= -(1 << 64), code < (1 << 64))
    if aux.variant != "Ok":
        ctx.require(z3.Not(fits), "[%s] a metadata integer the field can hold is accepted" % label, shape="representable metadata integer rejected")
        return
    got = metadata_map(aux)
    ctx.require(got is not None and set(got) == {9}, "[%s] metadata label 9 is emitted (%s)" % (label, got and sorted(got)), shape="metadata differs")
    if got and 9 in got:
        kind, v = got[9]
        ctx.require(kind == "Int", "[%s] the metadata value is an integer" % label, shape="metadata differs")
        if kind == "Int":
            ctx.require(z3.And(fits, eng.to_bv(v, 128) == code), "[%s] the metadata integer is the argument's value" % label, shape="metadata integer differs")


def s_p15(ctx, T, tx, fee, F, A, label):
    """fields of an input's datum used outside datum / amount positions: validity, signers, metadata"""
    eng = ctx.eng
    until, tag = sym(ctx, "src.until"), sym(ctx, "src.tag")
    lov = sym(ctx, "src.lovelace")
    eng.assume(lov - F >= 0)
    owner = [0x5A] * 28
    datum = T.struct(0, [T.bytes(owner), T.num(until), T.num(tag)])
    args = amap([("alice", A("alice"))])
    body, aux = finish(ctx, tx, args, amap([("src", utxo(T, 1, lov, datum=datum))]), fee, label)
    if body is None:
        return
    bn = check_outputs(ctx, body, [dict(address=ADDR["alice"], coin=lov - F)], label)
    g = lambda f: models.deref(body.fields[bn.index(f)])
    ttl = g("ttl")
    ctx.require(ttl.variant == "Some", "[%s] ttl present" % label, shape="ttl dropped")
    if ttl.variant == "Some":
        ctx.require(z3.ZeroExt(64, eng.to_bv(ttl.fields[0], 64)) == until, "[%s] ttl is the datum's `until` field" % label, shape="ttl differs")
    rs = g("required_signers")
    ctx.require(rs.variant == "Some", "[%s] required signers present" % label, shape="signers dropped")
    if rs.variant == "Some":
        inner = models.deref(rs.fields[0])
        while isinstance(inner, Agg):
            inner = models.deref(inner.fields[0])
        got = [list(models.deref(models.deref(x).fields[0]).items) for x in inner.items]
        ctx.require(got == [owner], "[%s] the required signer is the datum's `owner` field" % label, shape="signers differ")
    mm = metadata_map(aux)
    ctx.require(mm is not None and set(mm) == {5}, "[%s] metadata label 5 is emitted" % label, shape="metadata differs")
    if mm and 5 in mm:
        kind, v = mm[5]
        ctx.require(kind == "Int" and True, "[%s] the metadata value is an integer" % label, shape="metadata differs")
        if kind == "Int":
            ctx.require(eng.to_bv(v, 128) == tag, "[%s] the metadata integer is the datum's `tag` field" % label, shape="metadata integer differs")


def find_compiler_ops(v, out):
    """every EvalCompiler node of a TIR value -> [(op name, operand)]"""
    v = models.deref(v)
    if isinstance(v, BoxV):
        return find_compiler_ops(v.v, out)
    if isinstance(v, Agg):
        if v.ty.split("::")[-1] == "Expression" and v.variant == "EvalCompiler":
            op = models.deref_box(v.fields[0])
            out.append((op.variant, models.deref(op.fields[0]) if op.fields else None))
        for f in v.fields:
            find_compiler_ops(f, out)
    elif isinstance(v, (VecM, SliceV)):
        for x in v.items:
            find_compiler_ops(x, out)
    elif isinstance(v, MapM):
        for k, p, x in v.entries:
            find_compiler_ops(k, out); find_compiler_ops(x, out)
    return out


def s_p16(ctx, T, tx, fee, F, A, label):
    """min_utxo(<named output>) names the output by its position in the transaction (an anonymous
    and an optional output come before it); an optional output whose amount is empty is left out;
    the second pass of a resolution (compiler ops evaluated against the first pass's body) still
    finds the output min_utxo refers to"""
    eng = ctx.eng
    ops = find_compiler_ops(tx, [])
    idx = sorted({expr_num(o) for n, o in ops if n == "ComputeMinUtxo"})
    ctx.require(idx == [2], "[%s] min_utxo(change) lowers to the index of `change` among the transaction's outputs (got %s)" % (label, idx), shape="min_utxo refers to another output")
    q, gift = sym(ctx, "q"), sym(ctx, "gift")
    lov = sym(ctx, "src.lovelace")
    eng.assume(z3.And(lov - F - q - gift >= 0, q >= 1))
    args = amap([("q", intarg(T, q)), ("gift", intarg(T, gift)), ("alice", A("alice")), ("bob", A("bob"))])
    inputs = amap([("src", utxo(T, 1, lov))])
    body, _ = finish(ctx, tx, args, inputs, fee, label)
    if body is None:
        return
    with_gift = eng.decide(gift != 0)
    want = [dict(address=ADDR["bob"], coin=q)] + ([dict(address=ADDR["bob"], coin=gift)] if with_gift else []) + [dict(address=ADDR["alice"], coin=lov - F - q - gift)]
    bn = check_outputs(ctx, body, want, label)
    # second pass: the compiler ops are evaluated against the body of the first pass
    comp = compiler_value(eng)
    cn = eng.tdef("Compiler", "struct")[1][2]
    comp.fields[cn.index("latest_tx_body")] = some(Agg("KeepRaw", None, 0, [body]))
    cur = tx
    for name, st in (("apply_args", lambda t: eng.call_fn(eng.fns["apply_args"], [t, ref_to_value(args)])), ("apply_fees", lambda t: eng.call_fn(eng.fns["apply_fees"], [t, fee])),
                     ("compiler ops", lambda t: eng.call_fn(eng.find(trait="Node", self_ty="Tx", method="apply"), [t, ref_to_value(comp)]))):
        r = models.deref(st(cur))
        if r.variant != "Ok":
            ctx.violation("[%s] second pass: stage %s fails (%s an empty optional output): %r" % (label, name, "without" if with_gift else "with", models.deref(r.fields[0])),
                          shape="second pass fails: min_utxo of an output behind %s optional output" % ("a present" if with_gift else "an omitted"))
            return
        cur = r.fields[0]
    ctx.require(True, "[%s] second pass evaluates min_utxo(change)" % label)


def s_p17(ctx, T, tx, fee, F, A, label):
    """a withdrawal `from` a party and a treasury donation: the body withdraws `amt` from the reward
    account of the party's address (header byte + stake credential, 29 bytes) - a party whose address
    has no stake credential cannot be withdrawn from - and donates `tip`"""
    eng = ctx.eng
    amt, tip = sym(ctx, "amt"), sym(ctx, "tip")
    lov = sym(ctx, "src.lovelace")
    eng.assume(z3.And(lov - F >= 0, tip >= 1))
    kind = eng.choose(3, "address of the party: base (key stake credential) / base (script stake credential) / enterprise")
    pay, stake = [0xA1] * 28, [0xD4] * 28
    addr = {0: [0x00] + pay + stake, 1: [0x20] + pay + stake, 2: [0x60] + pay}[kind]
    args = amap([("amt", intarg(T, amt)), ("tip", intarg(T, tip)), ("alice", T.v("ArgValue", "Address", VecM(addr)))])
    u = T.st("Utxo", ref=utxo_ref(T, [1] * 32, 0), address=VecM(addr), assets=Agg("CanonicalAssets", None, 0, [MapM("HashMap", [[cls_naked(), True, lov]])]), datum=none(), script=none())
    r, why = pipeline(ctx, tx, args, amap([("src", MapM("HashSet", [[u, True, unit()]]))]), fee)
    if r is None:
        ctx.require(kind == 2, "[%s] a withdrawal from a party with a stake credential compiles: %s" % (label, why[:160]), shape="pipeline fails on a well-typed program")
        return
    body, _ = r
    bn = eng.tdef("TransactionBody", "struct")[1][2]
    g = lambda f: models.deref(body.fields[bn.index(f)])
    w = g("withdrawals")
    ctx.require(w.variant == "Some", "[%s] the withdrawal is emitted" % label, shape="withdrawal dropped")
    if w.variant == "Some":
        ents = [(models.deref(k), v) for k, p, v in models.deref(w.fields[0]).entries if p is not False]
        ctx.require(len(ents) == 1, "[%s] one withdrawal" % label, shape="withdrawal dropped")
        for k, v in ents:
            while isinstance(k, Agg):
                k = models.deref(k.fields[0])
            got = list(k.items) if isinstance(k, (VecM, SliceV)) else None
            want = None if kind == 2 else [(0xE0 if kind == 0 else 0xF0)] + stake
            ctx.require(kind != 2, "[%s] a party without a stake credential cannot be withdrawn from (emitted reward account: %s)" % (label, got), shape="withdrawal from an address without stake credential accepted")
            if kind != 2:
                ctx.require(got == want, "[%s] the withdrawal names the reward account of the party's address: header byte + stake credential (got %d bytes: %s)" % (label, len(got or []), got),
                            shape="withdrawal key is not the reward account of the party")
            ctx.require(z3.ZeroExt(64, eng.to_bv(v, 64)) == amt, "[%s] the withdrawn amount is the argument" % label, shape="withdrawal amount differs")
    d = g("donation")
    ctx.require(d.variant == "Some", "[%s] the donation is emitted" % label, shape="donation dropped")
    if d.variant == "Some":
        x = models.deref(d.fields[0])
        x = x.fields[0] if isinstance(x, Agg) else x
        ctx.require(z3.ZeroExt(64, eng.to_bv(x, 64)) == tip, "[%s] the donation is the argument" % label, shape="donation differs")
    check_outputs(ctx, body, [dict(address=addr, coin=lov - F)], label)


def s_p18(ctx, T, tx, fee, F, A, label):
    """cardano::publish (output with datum and reference script), a vote-delegation certificate
    (stake credential of a party, DRep key hash from an argument) next to an ordinary output"""
    eng = ctx.eng
    q = sym(ctx, "q")
    lov = sym(ctx, "src.lovelace")
    eng.assume(z3.And(lov - F - q >= 0, q >= 1))
    pay, stake = [0xA1] * 28, [0xD4] * 28
    alice = [0x00] + pay + stake
    drep = [0x77] * 28
    args = amap([("q", intarg(T, q)), ("drep", T.v("ArgValue", "Bytes", VecM(drep))), ("alice", T.v("ArgValue", "Address", VecM(alice))), ("bob", A("bob"))])
    u = T.st("Utxo", ref=utxo_ref(T, [1] * 32, 0), address=VecM(alice), assets=Agg("CanonicalAssets", None, 0, [MapM("HashMap", [[cls_naked(), True, lov]])]), datum=none(), script=none())
    body, _ = finish(ctx, tx, args, amap([("src", MapM("HashSet", [[u, True, unit()]]))]), fee, label)
    if body is None:
        return
    # ordinary outputs first, published outputs after them
    bn = check_outputs(ctx, body, [dict(address=alice, coin=lov - F - q), dict(address=ADDR["bob"], coin=q, datum=("constr", 0, [("int", q)]))], label)
    outs = models.deref(body.fields[bn.index("outputs")]).items
    if len(outs) == 2:
        o = models.deref(outs[1])
        while isinstance(o, Agg) and o.ty != "GenPostAlonzoTransactionOutput":
            o = models.deref(o.fields[0])
        names = eng.tdef("GenPostAlonzoTransactionOutput", "struct")[1][2]
        sr = models.deref(o.fields[names.index("script_ref")])
        ctx.require(sr.variant == "Some", "[%s] the published output carries its reference script" % label, shape="reference script dropped")
        if sr.variant == "Some":
            x = models.deref(sr.fields[0])
            while isinstance(x, Agg) and x.ty != "ScriptRef" and x.fields:
                x = models.deref(x.fields[0])
            ctx.require(isinstance(x, Agg) and x.variant == "PlutusV3Script", "[%s] the reference script has the declared version (got %s)" % (label, getattr(x, "variant", x)), shape="reference script version differs")
            if isinstance(x, Agg) and x.variant == "PlutusV3Script":
                inner = models.deref(x.fields[0])
                while isinstance(inner, Agg):
                    inner = models.deref(inner.fields[0])
                ctx.require(list(inner.items) == [0x51, 0x01, 0x01, 0x00, 0x23, 0x25, 0x98, 0x00, 0xa5, 0x18, 0xa4, 0xd1, 0x36, 0x56, 0x40, 0x04, 0xae, 0x69], "[%s] the reference script bytes are the ones written" % label, shape="reference script bytes differ")
    certs = models.deref(body.fields[bn.index("certificates")])
    ctx.require(certs.variant == "Some", "[%s] the certificate is emitted" % label, shape="certificate dropped")
    if certs.variant == "Some":
        inner = models.deref(certs.fields[0])
        while isinstance(inner, Agg):
            inner = models.deref(inner.fields[0])
        ctx.require(len(inner.items) == 1, "[%s] one certificate" % label, shape="certificate dropped")
        c = models.deref(inner.items[0])
        ctx.require(c.variant == "VoteDeleg", "[%s] a vote delegation certificate (got %s)" % (label, c.variant), shape="certificate kind differs")
        if c.variant == "VoteDeleg":
            cred, dr = models.deref(c.fields[0]), models.deref(c.fields[1])
            ctx.require(cred.variant == "AddrKeyhash" and list(models.deref(models.deref(cred.fields[0]).fields[0]).items) == stake, "[%s] the stake credential is the one of the party's address" % label, shape="stake credential differs")
            ctx.require(dr.variant == "Key" and list(models.deref(models.deref(dr.fields[0]).fields[0]).items) == drep, "[%s] the DRep is the key hash given as argument" % label, shape="drep differs")


def s_p19(ctx, T, tx, fee, F, A, label):
    """an `asset` definition used as constructor, type aliases (of a scalar and of a record), locals
    referring to locals, a many-input, a burn of a defined asset"""
    eng = ctx.eng
    n = sym(ctx, "n")
    lov, gold = sym(ctx, "funds.lovelace"), sym(ctx, "funds.gold")
    eng.assume(z3.And(lov - F >= 0, n - 1 >= 1, gold - n >= 1))
    who = [0xAB, 0xCD]
    args = amap([("n", intarg(T, n)), ("who", T.v("ArgValue", "Bytes", VecM(who))), ("alice", A("alice")), ("bob", A("bob"))])
    body, _ = finish(ctx, tx, args, amap([("funds", utxo(T, 1, lov, [(b"GOLD", gold)]))]), fee, label)
    if body is None:
        return
    K = (tuple(POL), tuple(b"GOLD"))
    bn = check_outputs(ctx, body, [dict(address=ADDR["bob"], coin=z3.BitVecVal(0, 128), assets={K: n - 1}, datum=("constr", 0, [("int", n + n + 1), ("bytes", who)])),
                                   dict(address=ADDR["alice"], coin=lov - F, assets={K: gold - n})], label)
    mint = models.deref(body.fields[bn.index("mint")])
    ctx.require(mint.variant == "Some", "[%s] the burn is emitted" % label, shape="mint dropped")
    if mint.variant == "Some":
        got = {}
        for pk, pp, pv in models.deref(mint.fields[0]).entries:
            for ak, ap, av in models.deref(pv).entries:
                nm = models.deref(ak)
                while isinstance(nm, Agg):
                    nm = models.deref(nm.fields[0])
                qv = models.deref(av)
                got[tuple(nm.items)] = qv.fields[0] if isinstance(qv, Agg) else qv
        ctx.require(set(got) == {tuple(b"GOLD")}, "[%s] exactly the burned asset appears in the mint field" % label, shape="mint assets differ")
        if tuple(b"GOLD") in got:
            ctx.require(z3.SignExt(64, eng.to_bv(got[tuple(b"GOLD")], 64)) == -1, "[%s] one unit is burned" % label, shape="burn quantity differs")


def s_p20(ctx, T, tx, fee, F, A, label):
    """two transactions whose names differ only in case: `t` is compiled from its own body"""
    q = sym(ctx, "q")
    lov = sym(ctx, "src.lovelace")
    ctx.eng.assume(lov - F - q >= 0)
    args = amap([("q", intarg(T, q)), ("alice", A("alice")), ("bob", A("bob"))])
    body, _ = finish(ctx, tx, args, amap([("src", utxo(T, 1, lov))]), fee, label)
    if body is None:
        return
    check_outputs(ctx, body, [dict(address=ADDR["bob"], coin=q), dict(address=ADDR["alice"], coin=lov - F - q)], label)


def s_p21(ctx, T, tx, fee, F, A, label):
    """a parameter named like the record field it is assigned to (`limit: limit`), a Bool argument in a
    nested record, a string field, a negative constant expression, the unit datum `()`, a collateral
    block selected by party"""
    eng = ctx.eng
    limit = sym(ctx, "limit")
    on = ctx.sym_bool("on")
    lov = sym(ctx, "src.lovelace")
    eng.assume(lov - F - 2000 >= 0)
    args = amap([("limit", intarg(T, limit)), ("on", T.v("ArgValue", "Bool", on)), ("alice", A("alice")), ("bob", A("bob"))])
    cu = T.st("Utxo", ref=utxo_ref(T, [0xCD] * 32, 1), address=VecM(ADDR["alice"]), assets=Agg("CanonicalAssets", None, 0, [MapM("HashMap", [[cls_naked(), True, 5000000]])]), datum=none(), script=none())
    body, _ = finish(ctx, tx, args, amap([("src", utxo(T, 1, lov)), ("collateral", MapM("HashSet", [[cu, True, unit()]]))]), fee, label)
    if body is None:
        return
    b = z3.If(on, z3.BitVecVal(1, 64), z3.BitVecVal(0, 64))
    flags = ("constr", 0, [("constr", b, []), ("bytes", list(b"hi")), ("int", z3.BitVecVal(-2, 128))])
    bn = check_outputs(ctx, body, [dict(address=ADDR["bob"], coin=z3.BitVecVal(2000, 128), datum=("constr", 1, [("int", limit), flags])),
                                   dict(address=ADDR["alice"], coin=lov - F - 2000, datum=("constr", 0, []))], label)
    coll = models.deref(body.fields[bn.index("collateral")])
    ctx.require(coll.variant == "Some", "[%s] the collateral input is emitted" % label, shape="collateral dropped")
    if coll.variant == "Some":
        inner = models.deref(coll.fields[0])
        while isinstance(inner, Agg):
            inner = models.deref(inner.fields[0])
        tn = eng.tdef("TransactionInput", "struct")[1][2]
        keys = [(list(models.deref(models.deref(models.deref(x).fields[tn.index("transaction_id")]).fields[0]).items), models.deref(x).fields[tn.index("index")]) for x in inner.items]
        ctx.require(keys == [([0xCD] * 32, 1)], "[%s] the collateral is the UTxO selected for the collateral block" % label, shape="collateral differs")


def s_p22(ctx, T, tx, fee, F, A, label):
    """a list of records and a map from integers to records inside a datum"""
    q = sym(ctx, "q")
    lov = sym(ctx, "src.lovelace")
    ctx.eng.assume(lov - F >= 0)
    args = amap([("q", intarg(T, q)), ("alice", A("alice"))])
    body, _ = finish(ctx, tx, args, amap([("src", utxo(T, 1, lov))]), fee, label)
    if body is None:
        return
    item = lambda i, t: ("constr", 0, [("int", i), ("bytes", [t])])
    want = ("constr", 0, [("list", [item(q, 1), item(q + 1, 2)]), ("map", [(("int", z3.BitVecVal(1, 128)), item(z3.BitVecVal(7, 128), 3))])])
    check_outputs(ctx, body, [dict(address=ADDR["alice"], coin=lov - F, datum=want)], label)


def s_p23(ctx, T, tx, fee, F, A, label):
    """an asset name built with concat(<argument>, <literal>) used in a mint and in an output; an
    integer argument as mint redeemer"""
    eng = ctx.eng
    q = sym(ctx, "q")
    lov = sym(ctx, "src.lovelace")
    eng.assume(z3.And(lov - F >= 0, q >= 1))
    name = [0x4E, 0x46]
    args = amap([("q", intarg(T, q)), ("name", T.v("ArgValue", "Bytes", VecM(name))), ("alice", A("alice"))])
    body, _ = finish(ctx, tx, args, amap([("src", utxo(T, 1, lov))]), fee, label)
    if body is None:
        return
    full = tuple(name + [0x01])
    bn = check_outputs(ctx, body, [dict(address=ADDR["alice"], coin=lov - F, assets={(tuple(POL), full): q})], label)
    mint = models.deref(body.fields[bn.index("mint")])
    ctx.require(mint.variant == "Some", "[%s] the mint is emitted" % label, shape="mint dropped")
    if mint.variant == "Some":
        got = {}
        for pk, pp, pv in models.deref(mint.fields[0]).entries:
            for ak, ap, av in models.deref(pv).entries:
                nm = models.deref(ak)
                while isinstance(nm, Agg):
                    nm = models.deref(nm.fields[0])
                qv = models.deref(av)
                got[tuple(nm.items)] = qv.fields[0] if isinstance(qv, Agg) else qv
        ctx.require(set(got) == {full}, "[%s] the minted asset is named concat(name, 0x01) (got %s)" % (label, sorted(got)), shape="mint assets differ")
        if full in got:
            ctx.require(z3.SignExt(64, eng.to_bv(got[full], 64)) == q, "[%s] minted quantity" % label, shape="mint quantity differs")


def s_p24(ctx, T, tx, fee, F, A, label):
    """an input locked by a declared policy (`from: P`) with a record datum and a variant redeemer, a burn
    of `AnyAsset(P, ..)`, a signer and a datum field read from the input's datum, an output back to `P`"""
    eng = ctx.eng
    q, price = sym(ctx, "q"), sym(ctx, "vault.price")
    vlov, gas, tickets = sym(ctx, "vault.lovelace"), sym(ctx, "gas.lovelace"), sym(ctx, "vault.tickets")
    eng.assume(z3.And(gas - F >= 0, tickets - 1 >= 1))
    owner = [0x5A] * 28
    script_addr = [0x70] + POL
    datum = T.struct(0, [T.bytes(owner), T.num(price)])
    vu = T.st("Utxo", ref=utxo_ref(T, [1] * 32, 0), address=VecM(script_addr), assets=Agg("CanonicalAssets", None, 0, [MapM("HashMap", [[cls_naked(), True, vlov], [cls_defined(POL, list(b"TICKET")), True, tickets]])]), datum=some(datum), script=none())
    args = amap([("q", intarg(T, q)), ("alice", A("alice"))])
    body, _ = finish(ctx, tx, args, amap([("vault", MapM("HashSet", [[vu, True, unit()]])), ("gas", utxo(T, 2, gas))]), fee, label)
    if body is None:
        return
    K = (tuple(POL), tuple(b"TICKET"))
    bn = check_outputs(ctx, body, [dict(address=script_addr, coin=vlov, assets={K: tickets - 1}, datum=("constr", 0, [("bytes", owner), ("int", price + q)])),
                                   dict(address=ADDR["alice"], coin=gas - F)], label)
    g = lambda f: models.deref(body.fields[bn.index(f)])
    mint = g("mint")
    ctx.require(mint.variant == "Some", "[%s] the burn is emitted" % label, shape="mint dropped")
    if mint.variant == "Some":
        got = {}
        for pk, pp, pv in models.deref(mint.fields[0]).entries:
            pol = tuple(models.deref(models.deref(pk).fields[0]).items)
            for ak, ap, av in models.deref(pv).entries:
                nm = models.deref(ak)
                while isinstance(nm, Agg):
                    nm = models.deref(nm.fields[0])
                qv = models.deref(av)
                got[(pol, tuple(nm.items))] = qv.fields[0] if isinstance(qv, Agg) else qv
        ctx.require(set(got) == {K}, "[%s] the burned asset sits under the declared policy (got %s)" % (label, sorted(got)), shape="mint assets differ")
        if K in got:
            ctx.require(z3.SignExt(64, eng.to_bv(got[K], 64)) == -1, "[%s] one ticket is burned" % label, shape="burn quantity differs")
    rs = g("required_signers")
    ctx.require(rs.variant == "Some", "[%s] required signers present" % label, shape="signers dropped")
    if rs.variant == "Some":
        inner = models.deref(rs.fields[0])
        while isinstance(inner, Agg):
            inner = models.deref(inner.fields[0])
        ctx.require([list(models.deref(models.deref(x).fields[0]).items) for x in inner.items] == [owner], "[%s] the required signer is the datum's owner" % label, shape="signers differ")
    ins = g("inputs")
    while isinstance(ins, Agg):
        ins = models.deref(ins.fields[0])
    ctx.require(len(ins.items) == 2, "[%s] both inputs are spent" % label, shape="inputs differ")


SPECS = {"p01_int_arith": s_p01, "p02_asset_arith": s_p02, "p03_datum_spread": s_p03, "p04_mint_meta": s_p04,
         "p05_lists_concat": s_p05, "p06_locals_env": s_p06, "p07_time": s_p07, "p08_two_inputs": s_p08,
         "p09_record_order": s_p09, "p10_negate_parens": s_p10, "p11_policy_contexts": s_p11, "p12_nested_access": s_p12, "p13_concat_mint_net": s_p13, "p14_time_back_meta": s_p14, "p15_datum_fields_elsewhere": s_p15, "p16_min_utxo_optional": s_p16, "p17_withdrawal_donation": s_p17, "p18_publish_cert": s_p18, "p19_asset_alias_many": s_p19, "p20_two_txs_by_case": s_p20, "p21_collateral_bool_unit": s_p21, "p22_nested_collections": s_p22, "p23_concat_asset_name": s_p23, "p24_script_spend_burn": s_p24}


def _h(name, fn, bounds, tier="quick", **kw):
    d = dict(name=name, fn=fn, crates=CRATES, bounds=bounds, tier=tier)
    d.update(kw)
    return d


def _mk(prog):
    def h(ctx, tier, seed):
        k = ctx.eng.choose(3, "layout")
        run_program(ctx, prog, k)
    return h


LEVEL = "translation_validation"


def extra_coverage(cov):
    cov["programs"] = len(SPECS) * 3
    cov["disagreements_checked"] = sum(1 for h in cov["harnesses"] if h.get("engine") == "M" and h["harness"].startswith("c01_") and h["status"] == "ok")
    cov["explanation"] = "programs = corpus programs x layouts pushed through the real front end and then through the MIR of the back end; disagreements_checked = programs whose every body field was compared with the hand-written denotation on every path"


HARNESSES = [_h("c01_" + p, _mk(p), "corpus program %s in 3 whitespace/comment layouts; integer arguments and UTxO amounts (below 2^16 quick / 2^40 thorough) and the fee (below 2^32) symbolic" % p, time_limit=900) for p in SPECS]
