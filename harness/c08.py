"""C08 — redeemers are attached to the item they were written for.

Real MIR of tx3-cardano: the body is assembled by the real compile_tx_body (compile_inputs,
compile_mint_block, compile_withdrawals) from a constant TIR whose transaction ids, output
indices and policy ids are symbolic — i.e. every relative order — and the real
compile_redeemers is compared with the map obtained by ranking items as the ledger does."""
import z3
from values import *
import models
from harness.hutil import *

CRATES = ["tx3-cardano", "tx3-tir"]
ASSUMPTIONS = ["C08: items are distinguished by one symbolic byte of a 32-byte txid / 28-byte policy plus a symbolic output index (all relative orders, ties included where stated); redeemer data is an integer; addresses are not involved"]

TESTNET = None


def network(eng):
    return eng.mk_variant("NetworkId", "Testnet", [])


def txid(b):
    return [7] * 5 + [b] + [9] * 26


def policy(b):
    return [3] * 4 + [b] + [1] * 23


def redeemer_map(ctx, r):
    """Result<Option<Redeemers>> -> list of (tag name, index, data value) or None on Err"""
    r = models.deref(r)
    if r.variant != "Ok":
        return None
    o = models.deref(r.fields[0])
    if o.variant == "None":
        return []
    red = models.deref(o.fields[0])
    m = models.deref(red.fields[0])
    names_k = ctx.eng.tdef("RedeemersKey", "struct")[1][2]
    names_v = ctx.eng.tdef("RedeemersValue", "struct")[1][2]
    out = []
    for k, p, v in m.entries:
        if p is False:
            continue
        if p is not True:
            raise Unmodelled("symbolic presence in the redeemer map")
        k, v = models.deref(k), models.deref(v)
        out.append((models.deref(k.fields[names_k.index("tag")]).variant, k.fields[names_k.index("index")], models.deref(v.fields[names_v.index("data")])))
    return out


def data_int(eng, d):
    """PlutusData::BigInt(Int(x)) -> x"""
    d = models.deref(d)
    if isinstance(d, Agg) and d.variant == "BigInt":
        b = models.deref(d.fields[0])
        if b.variant == "Int":
            return models.deref(b.fields[0]).fields[0]
    return None


def expect_entries(ctx, got, tag, items, what):
    """items: [(rank term, data int)] — each must appear exactly once under `tag`; nothing else under it"""
    eng = ctx.eng
    mine = [(i, d) for t, i, d in got if t == tag]
    ctx.require(len(mine) == len(items), "%s: one redeemer per guarded item (%d expected, %d emitted)" % (what, len(items), len(mine)), shape="%s redeemer lost or duplicated" % what)
    for n, (rank, data) in enumerate(items):
        conds = []
        for i, d in mine:
            dv = data_int(eng, d)
            if dv is None:
                continue
            conds.append(z3.And(eng.to_bv(i, 32) == z3.Extract(31, 0, rank) if is_sym(rank) else eng.to_bv(i, 32) == rank, eng.to_bv(dv, 128) == data))
        ctx.require(z3.Or(*conds) if conds else False, "%s #%d: its redeemer sits at the ledger index of the item it guards" % (what, n), shape="%s redeemer index points at another item" % what)


def h_spend(ctx, tier, seed, k=2, same_tx=False):
    eng = ctx.eng; T = TIR(eng)
    bs = [ctx.sym_int("txid_byte%d" % i, "u8") for i in range(k)]
    ixs = [ctx.sym_int("out_index%d" % i, "u32") for i in range(k)]
    if same_tx:
        for b in bs[1:]:
            eng.assume(b == bs[0])
    keys = [(txid(b), ix) for b, ix in zip(bs, ixs)]
    # distinct UTxOs
    for i in range(k):
        for j in range(i):
            eng.assume(z3.Not(z3.And(bs[i] == bs[j], ixs[i] == ixs[j])))
    with_red = [True] * k
    if k >= 3:
        with_red[1] = False        # an input without redeemer still takes part in the order
    inputs = []
    for i in range(k):
        inputs.append(T.st("Input", name=StrM("in%d" % i, True), utxos=T.v("Expression", "UtxoRefs", VecM([utxo_ref(T, txid(bs[i]), ixs[i])])),
                           redeemer=T.num(100 + i) if with_red[i] else T.none()))
    tx = mk_tx(T, inputs=inputs)
    body_f = eng.find(short="compile_tx_body")
    try:
        body = models.deref(eng.call_fn(body_f, [ref_to_value(tx), network(eng)]))
        if body.variant != "Ok":
            ctx.violation("a constant template with well-formed inputs does not compile", shape="body rejected")
            return
        red = eng.call_fn(eng.find(short="compile_redeemers"), [ref_to_value(tx), ref_to_value(body.fields[0]), network(eng)])
    except Panic as p:
        eng.stats.panic_paths += 1
        ctx.violation("redeemer compilation panicked: %s" % p.kind, site=p.site)
        return
    got = redeemer_map(ctx, red)
    ctx.require(got is not None, "redeemers compile for well-formed inputs", shape="redeemers rejected")
    if got is None:
        return

    def lt(a, b):
        (ta, ia), (tb, ib) = a, b
        return b_or(lex_lt(eng, ta, tb), b_and(bytes_eq(eng, ta, tb), z3.ULT(ia, ib)))
    items = []
    for i in range(k):
        if not with_red[i]:
            continue
        rank = z3.BitVecVal(0, 64)
        for j in range(k):
            if j != i:
                rank = rank + z3.If(z3b(lt(keys[j], keys[i])), z3.BitVecVal(1, 64), z3.BitVecVal(0, 64))
        items.append((rank, 100 + i))
    expect_entries(ctx, got, "Spend", items, "spend")
    ctx.require(all(t == "Spend" for t, _, _ in got), "no redeemer of another purpose is invented")


def h_spend2(ctx, tier, seed): h_spend(ctx, tier, seed, 2)
def h_spend3(ctx, tier, seed): h_spend(ctx, tier, seed, 3)
def h_spend_same_tx(ctx, tier, seed): h_spend(ctx, tier, seed, 2, same_tx=True)


def mint_block(T, pol, amount, red):
    return T.st("Mint", amount=T.assets([T.asset(T.bytes(pol), T.bytes([0x41]), T.num(amount))]), redeemer=red)


def h_mint(ctx, tier, seed, k=2, burn_last=False):
    eng = ctx.eng; T = TIR(eng)
    ps = [ctx.sym_int("policy_byte%d" % i, "u8") for i in range(k)]
    for i in range(k):
        for j in range(i):
            eng.assume(ps[i] != ps[j])
    mints, burns = [], []
    for i in range(k):
        blk = mint_block(T, policy(ps[i]), 5 + i, T.num(200 + i))
        (burns if (burn_last and i == k - 1) else mints).append(blk)
    tx = mk_tx(T, mints=mints, burns=burns)
    try:
        body = models.deref(eng.call_fn(eng.find(short="compile_tx_body"), [ref_to_value(tx), network(eng)]))
        if body.variant != "Ok":
            ctx.violation("a constant template with well-formed mints does not compile", shape="body rejected")
            return
        red = eng.call_fn(eng.find(short="compile_redeemers"), [ref_to_value(tx), ref_to_value(body.fields[0]), network(eng)])
    except Panic as p:
        eng.stats.panic_paths += 1
        ctx.violation("redeemer compilation panicked: %s" % p.kind, site=p.site)
        return
    got = redeemer_map(ctx, red)
    ctx.require(got is not None, "redeemers compile for well-formed mints", shape="redeemers rejected")
    if got is None:
        return
    items = []
    for i in range(k):
        rank = z3.BitVecVal(0, 64)
        for j in range(k):
            if j != i:
                rank = rank + z3.If(z3.ULT(ps[j], ps[i]), z3.BitVecVal(1, 64), z3.BitVecVal(0, 64))
        items.append((rank, 200 + i))
    expect_entries(ctx, got, "Mint", items, "mint")
    ctx.require(all(t == "Mint" for t, _, _ in got), "no redeemer of another purpose is invented")


def h_mint2(ctx, tier, seed): h_mint(ctx, tier, seed, 2)
def h_mint3(ctx, tier, seed): h_mint(ctx, tier, seed, 3)
def h_mint_burn(ctx, tier, seed): h_mint(ctx, tier, seed, 2, burn_last=True)


def _h(name, fn, bounds, tier="quick", **kw):
    d = dict(name=name, fn=fn, crates=CRATES, bounds=bounds, tier=tier)
    d.update(kw)
    return d


HARNESSES = [
    _h("c08_spend2", h_spend2, "2 script inputs; txid byte and output index symbolic (u8, u32): every relative order"),
    _h("c08_spend_same_tx", h_spend_same_tx, "2 script inputs of one transaction; output indices symbolic u32"),
    _h("c08_spend3", h_spend3, "3 inputs (middle one without redeemer); txid byte and output index symbolic", tier="thorough", max_paths=60000),
    _h("c08_mint2", h_mint2, "2 mints on distinct policies; policy byte symbolic: both orders"),
    _h("c08_mint_burn", h_mint_burn, "1 mint + 1 burn on distinct policies; policy byte symbolic"),
    _h("c08_mint3", h_mint3, "3 mints on distinct policies; policy byte symbolic: all 6 orders", tier="thorough"),
]


# ---- withdrawals and multi-UTxO inputs ------------------------------------------------------

def reward_account(b):
    return [0xE0] + [b] * 28          # testnet stake-key reward account


def h_withdrawal(ctx, tier, seed):
    """a withdrawal block with a redeemer: the redeemer is emitted with tag Reward at the rank
    of its reward account"""
    eng = ctx.eng; T = TIR(eng)
    bs = [ctx.sym_int("account_byte%d" % i, "u8") for i in range(2)]
    eng.assume(bs[0] != bs[1])
    adhoc = []
    for i in range(2):
        m = MapM("HashMap", [[StrM("credential", True), True, T.address(reward_account(bs[i]))],
                             [StrM("amount", True), True, T.num(1000 + i)],
                             [StrM("redeemer", True), True, T.num(300 + i)]])
        adhoc.append(T.st("AdHocDirective", name=StrM("withdrawal", True), data=m))
    tx = mk_tx(T, adhoc=adhoc)
    try:
        body = models.deref(eng.call_fn(eng.find(short="compile_tx_body"), [ref_to_value(tx), network(eng)]))
        if body.variant != "Ok":
            ctx.violation("a constant template with well-formed withdrawals does not compile", shape="body rejected")
            return
        red = eng.call_fn(eng.find(short="compile_redeemers"), [ref_to_value(tx), ref_to_value(body.fields[0]), network(eng)])
    except Panic as p:
        eng.stats.panic_paths += 1
        ctx.violation("redeemer compilation panicked: %s" % p.kind, site=p.site)
        return
    # the body must carry both withdrawals (otherwise the directive name is not the one the body honours)
    names = eng.tdef("TransactionBody", "struct")[1][2]
    wd = models.deref(models.deref(body.fields[0]).fields[names.index("withdrawals")])
    ctx.require(wd.variant == "Some", "the body carries the withdrawals", shape="withdrawals missing from the body")
    got = redeemer_map(ctx, red)
    ctx.require(got is not None, "redeemers compile for well-formed withdrawals", shape="redeemers rejected")
    if got is None:
        return
    items = []
    for i in range(2):
        j = 1 - i
        rank = z3.If(z3.ULT(bs[j], bs[i]), z3.BitVecVal(1, 64), z3.BitVecVal(0, 64))
        items.append((rank, 300 + i))
    expect_entries(ctx, got, "Reward", items, "withdrawal")


def h_directive_name(ctx, tier, seed):
    """the name the front end gives a withdrawal directive is the name both back-end sites filter on"""
    import mharness
    lang = mharness.engine_for(["tx3-lang"])
    body_side = [f for n, f in ctx.eng.fns.items() if n.startswith("compile_withdrawals")]
    red_side = [f for n, f in ctx.eng.fns.items() if n.startswith("compile_withdrawal_redeemers")]
    low = [f for n, f in lang.fns.items() if "into_lower" in n and f.impl_span and "cardano.rs" in f.impl_span[0]]

    def literals(fs):
        out = set()
        for f in fs:
            for b in f.blocks.values():
                for st in b:
                    out.update(re.findall(r'const "([a-z_]+)"', st))
        return out
    import re
    lowered = {x for x in literals(low) if x.startswith("withdraw")}
    ctx.require(len(lowered) == 1, "the lowering names withdrawal directives with one literal (found %s)" % sorted(lowered))
    name = sorted(lowered)[0] if lowered else "?"
    ctx.require(name in literals(body_side), "the body assembly filters on the lowered directive name %r" % name, shape="withdrawal directive name mismatch (body)")
    ctx.require(name in literals(red_side), "the redeemer assembly filters on the lowered directive name %r" % name, shape="withdrawal directive name mismatch (redeemers)")


def h_multi_utxo(ctx, tier, seed):
    """a script input bound to two UTxOs: each of them gets the block's redeemer, at its own rank"""
    eng = ctx.eng; T = TIR(eng)
    bs = [ctx.sym_int("txid_byte%d" % i, "u8") for i in range(2)]
    eng.assume(bs[0] != bs[1])
    utxos = []
    for i in range(2):
        u = T.st("Utxo", ref=utxo_ref(T, txid(bs[i]), 0), address=VecM([0x60] + [1] * 28),
                 assets=Agg("CanonicalAssets", None, 0, [MapM("HashMap")]), datum=none(), script=none())
        utxos.append([u, True, unit()])
    inp = T.st("Input", name=StrM("locked", True), utxos=T.v("Expression", "UtxoSet", MapM("HashSet", utxos)), redeemer=T.num(400))
    tx = mk_tx(T, inputs=[inp])
    try:
        body = models.deref(eng.call_fn(eng.find(short="compile_tx_body"), [ref_to_value(tx), network(eng)]))
        if body.variant != "Ok":
            ctx.violation("a constant template with a 2-UTxO input does not compile", shape="body rejected")
            return
        red = eng.call_fn(eng.find(short="compile_redeemers"), [ref_to_value(tx), ref_to_value(body.fields[0]), network(eng)])
    except Panic as p:
        eng.stats.panic_paths += 1
        ctx.violation("redeemer compilation panicked: %s" % p.kind, site=p.site)
        return
    got = redeemer_map(ctx, red)
    if got is None:
        ctx.violation("redeemers rejected for a 2-UTxO input", shape="redeemers rejected")
        return
    items = [(z3.If(z3.ULT(bs[1 - i], bs[i]), z3.BitVecVal(1, 64), z3.BitVecVal(0, 64)), 400) for i in range(2)]
    expect_entries(ctx, got, "Spend", items, "multi-UTxO spend")


HARNESSES += [
    _h("c08_withdrawal", h_withdrawal, "2 withdrawals with redeemers; reward-account byte symbolic: both orders"),
    _h("c08_directive_name", h_directive_name, "string literals of the MIR of the withdrawal lowering (tx3-lang) vs. compile_withdrawals / compile_withdrawal_redeemers (tx3-cardano)", crates=["tx3-cardano", "tx3-tir"]),
    _h("c08_multi_utxo", h_multi_utxo, "1 script input bound to 2 UTxOs; txid byte symbolic; hash-set iteration order: all", map_order="all"),
]


# ---- a policy whose mint and burn cancel ------------------------------------------------------

def h_mint_cancelled(ctx, tier, seed):
    """policy P: mint x + burn x of one asset (the policy leaves the body), with a redeemer on the
    mint and/or the burn block; policy Q (symbolic byte: sorts before or after P) minted with or
    without a redeemer.  Either compilation refuses, or every Mint redeemer sits at the index of a
    policy that is in the body's mint field and carries that policy's own data."""
    eng = ctx.eng; T = TIR(eng)
    q = ctx.sym_int("other_policy_byte", "u8")
    eng.assume(q != 0x50)
    red_where = eng.choose(3, "redeemer of the cancelled policy on mint / burn / both")
    q_red = eng.choose(2, "the other policy has its own redeemer") == 1
    x = 5
    P = [0x50] * 28
    mints = [mint_block(T, P, x, T.num(300) if red_where in (0, 2) else T.none()),
             mint_block(T, policy(q), 9, T.num(400) if q_red else T.none())]
    burns = [mint_block(T, P, x, T.num(301) if red_where in (1, 2) else T.none())]
    tx = mk_tx(T, mints=mints, burns=burns)
    try:
        body = models.deref(eng.call_fn(eng.find(short="compile_tx_body"), [ref_to_value(tx), network(eng)]))
        if body.variant != "Ok":
            ctx.require(True, "refused")
            return
        red = models.deref(eng.call_fn(eng.find(short="compile_redeemers"), [ref_to_value(tx), ref_to_value(body.fields[0]), network(eng)]))
    except Panic as p:
        eng.stats.panic_paths += 1
        ctx.violation("redeemer compilation panicked: %s" % p.kind, site=p.site)
        return
    if red.variant != "Ok":
        ctx.require(True, "a redeemer on a policy that is not minted on balance is refused")
        return
    got = redeemer_map(ctx, red) or []
    # the body's mint field holds Q only: index 0 is Q
    for t, i, d in got:
        if t != "Mint":
            continue
        dv = data_int(eng, d)
        ctx.require(dv is not None and z3.And(eng.to_bv(i, 32) == 0, eng.to_bv(dv, 128) == 400) if q_red else False,
                    "a Mint redeemer points at a policy present in the body and carries that policy's data", shape="redeemer of a cancelled policy attached to another policy")
    if q_red:
        ctx.require(any(t == "Mint" for t, _, _ in got), "the redeemer of the policy that is minted is emitted", shape="mint redeemer lost or duplicated")


HARNESSES.append(_h("c08_mint_cancelled", h_mint_cancelled, "policy P mint 5 / burn 5 with redeemers on mint, burn or both; policy Q (byte symbolic) minted with / without redeemer"))
