"""C14 (engine M part) — no feasible panic path in back-end code whose state lives in hash
containers or foreign structures (Kani cannot run these): min_utxo sizing against the previous
body, ad-hoc script directives, cost-model lookup, reducer assumptions about IR shape."""
import z3
from values import *
import models
from harness.hutil import *

CRATES = ["tx3-cardano", "tx3-tir"]
ASSUMPTIONS = ["C14/M: a feasible panic path is the violation; CBOR encoders/decoders and digests are uninterpreted (an encoded length is an arbitrary usize below 2^32; a decode is Ok or Err)"]


def foreign_struct(eng, name, **given):
    q, d = eng.tdef(name, "struct")
    if d is None:
        raise Unmodelled("no definition of %s" % name)
    return Agg(q, None, 0, [given.get(f, Opaque("%s.%s" % (name, f))) for f in d[2]])


def no_panic(ctx, what, thunk):
    try:
        return thunk()
    except Panic as p:
        ctx.eng.stats.panic_paths += 1
        ctx.violation("%s panics: %s (%s)" % (what, p.kind, p.msg[:60]), shape="%s: %s" % (what, p.kind), site=p.site)
        return None


def h_min_utxo(ctx, tier, seed):
    """compute_min_utxo(index, previous body with n outputs): Ok or Err for every i128 index"""
    eng = ctx.eng; T = TIR(eng)
    idx = ctx.sym_int("index", "i128")
    cpb = ctx.sym_int("coins_per_byte", "u64")
    n = eng.choose(5, "outputs in the previous body") - 1      # -1: no previous body
    if n < 0:
        body = none()
    else:
        outs = VecM([Opaque("output%d" % i) for i in range(n)])
        body = some(Agg("KeepRaw", None, 0, [foreign_struct(eng, "TransactionBody", outputs=outs)]))
    f = eng.find(short="compute_min_utxo")
    r = no_panic(ctx, "compute_min_utxo", lambda: eng.call_fn(f, [T.num(idx), ref_to_value(body), eng.cast_int(cpb, "u64", "i128")]))
    if r is None:
        return
    r = models.deref(r)
    if n >= 0:
        inrange = z3.And(idx >= 0, idx < n)
        ctx.require(inrange if r.variant == "Ok" else z3.Not(inrange), "min_utxo sizes exactly the outputs that exist in the previous body", shape="min_utxo index range wrong")
    else:
        ctx.require(r.variant == "Ok", "without a previous body min_utxo uses the default size")


def directive(eng, name, entries):
    """AdHocDirective { name, data: HashMap<String, Expression> } with symbolic presence"""
    T = TIR(eng)
    m = MapM("HashMap", [[StrM(k, True), p, v] for k, p, v in entries])
    return T.st("AdHocDirective", name=StrM(name, True), data=m)


def h_adhoc_script(ctx, tier, seed):
    """script directive with any subset of {script, version} present and any version number"""
    eng = ctx.eng; T = TIR(eng)
    ps = ctx.sym_bool("has_script"); pv = ctx.sym_bool("has_version")
    ver = ctx.sym_int("version", "i128")
    kind = eng.choose(3, "script expression kind")
    script = [T.bytes([0x82, 0x00, 0x80]), T.string("abc"), T.num(5)][kind]
    d = directive(eng, "plutus_script", [("script", ps, script), ("version", pv, T.num(ver))])
    f = eng.find(short="compile_adhoc_script")
    r = no_panic(ctx, "compile_adhoc_script", lambda: eng.call_fn(f, [ref_to_value(d)]))
    if r is None:
        return
    r = models.deref(r)
    if r.variant == "Ok":
        ctx.require(z3.And(ps, kind != 2), "a script directive is accepted only with a script given as bytes")


def h_cost_models(ctx, tier, seed):
    """compute_script_data_hash for every subset of cost models and every witness shape"""
    eng = ctx.eng
    has_red = eng.choose(2, "redeemers present") == 1
    scripts = eng.choose(4, "which plutus script set is present")       # 0 none, 1 v1, 2 v2, 3 v3
    cm = MapM("HashMap", [[k, ctx.sym_bool("cost_model_%d" % k), VecM([1, 2, 3])] for k in (0, 1, 2)])
    q, d = eng.tdef("WitnessSet", "struct")
    eng.foreign_fields["WitnessSet"] = d[2]
    fields = {f: none() for f in d[2]}
    if has_red:
        fields["redeemer"] = some(Opaque("redeemers"))
    if scripts:
        fields["plutus_v%d_script" % scripts] = some(Opaque("scripts"))
    ws = Agg(q, None, 0, [fields[f] for f in d[2]])
    pq, pd = eng.tdef("PParams", "struct")
    pp = Agg(pq, None, 0, [cm if f == "cost_models" else Opaque("pparams." + f) for f in pd[2]])
    f = eng.find(short="compute_script_data_hash")
    r = no_panic(ctx, "compute_script_data_hash", lambda: eng.call_fn(f, [ref_to_value(ws), ref_to_value(pp)]))
    if r is None:
        return
    r = models.deref(r)
    if r.variant == "Ok":
        h = models.deref(r.fields[0])
        ctx.require(h.variant == ("Some" if has_red else "None"), "script data hash present exactly when redeemers are", shape="script_data_hash presence wrong")
    if not has_red:
        ctx.require(r.variant == "Ok", "without redeemers no cost model is needed", shape="cost model demanded without redeemers")


def h_reduce_shapes(ctx, tier, seed):
    """reducer on IR shapes a client can send: an asset whose amount is not a number, an
    IntoScript coercion, indexing with extreme integers"""
    eng = ctx.eng; T = TIR(eng)
    which = eng.choose(6, "IR shape")
    if which >= 4:
        # a coercion of an input bound to 0, 1 or 2 UTxOs (an empty set is a value a client can send)
        n = eng.choose(3, "UTxOs bound to the input")
        us = [T.st("Utxo", ref=utxo_ref(T, [0x30 + i] * 32, i), address=VecM([0x60] + [1] * 28),
                   assets=Agg("CanonicalAssets", None, 0, [MapM("HashMap", [[cls_naked(), True, 5000000]])]), datum=some(T.num(9)) if i == 0 else none(), script=none()) for i in range(n)]
        c = T.v("Coerce", "IntoDatum" if which == 4 else "IntoAssets", T.v("Expression", "UtxoSet", MapM("HashSet", [[u, True, unit()] for u in us])))
        f = eng.find(trait="Composite", self_ty="Coerce", method="reduce_self")
        no_panic(ctx, "reducing %s of an input bound to %d UTxO(s)" % ("IntoDatum" if which == 4 else "IntoAssets", n), lambda: eng.call_fn(f, [c]))
        ctx.require(True, "the coercion returns")
        return
    if which == 0:
        a = T.assets([T.asset(T.none(), T.none(), T.string("ten"))])
        b = T.assets([T.asset(T.none(), T.none(), T.num(1))])
        f = eng.find(trait="Arithmetic", self_ty="Expression", method="add")
        no_panic(ctx, "adding assets whose amount is not a number", lambda: eng.call_fn(f, [a, b]))
    elif which == 1:
        c = T.v("Coerce", "IntoScript", T.bytes([1, 2]))
        f = eng.find(trait="Composite", self_ty="Coerce", method="reduce_self")
        no_panic(ctx, "reducing an IntoScript coercion", lambda: eng.call_fn(f, [c]))
    elif which == 2:
        n = ctx.sym_int("n", "i128")
        l = T.list([T.num(1), T.num(2)])
        f = eng.find(trait="Indexable", self_ty="Expression", method="index")
        no_panic(ctx, "indexing a list", lambda: eng.call_fn(f, [ref_to_value(l), T.num(n)]))
    else:
        # multi-asset addition with extreme amounts: must not panic (and, C02, must not wrap)
        x = ctx.sym_int("x", "i128"); y = ctx.sym_int("y", "i128")
        a = T.assets([T.asset(T.none(), T.none(), T.num(x))])
        b = T.assets([T.asset(T.none(), T.none(), T.num(y))])
        f = eng.find(trait="Arithmetic", self_ty="Expression", method="add")
        r = no_panic(ctx, "adding multi-asset values", lambda: eng.call_fn(f, [a, b]))


def _h(name, fn, bounds, tier="quick", **kw):
    d = dict(name=name, fn=fn, crates=CRATES, bounds=bounds, tier=tier)
    d.update(kw)
    return d


HARNESSES = [
    _h("c14m_min_utxo_index", h_min_utxo, "index: whole i128 range; previous body absent or with 0..3 outputs; coins_per_byte: whole u64 range"),
    _h("c14m_adhoc_script", h_adhoc_script, "script/version presence symbolic; version: whole i128 range; script as bytes / string / number"),
    _h("c14m_cost_models", h_cost_models, "every subset of cost models {0,1,2}; redeemers present/absent; plutus script set none/v1/v2/v3"),
    _h("c14m_reduce_shapes", h_reduce_shapes, "6 IR shapes (incl. IntoDatum / IntoAssets of an input bound to 0..2 UTxOs); scalars: whole i128 range"),
]


# ---- chain-specific directives: every field absent or of any kind -----------------------------

def _kinds(ctx, T):
    n = ctx.sym_int("n", "i128")
    return [
        ("absent", None),
        ("number", T.num(n)),
        ("string", T.string("abc")),
        ("empty bytes", T.bytes([])),
        ("28 bytes", T.bytes([7] * 28)),
        ("29 bytes (enterprise address image)", T.bytes([0x60] + [7] * 28)),
        ("payment address", T.address([0x60] + [7] * 28)),
        ("base address", T.address([0x00] + [7] * 28 + [8] * 28)),
        ("reward address", T.address([0xE0] + [7] * 28)),
        ("script reward address", T.address([0xF0] + [7] * 28)),
        ("malformed address", T.address([0x60, 1, 2])),
        ("empty address", T.address([])),
        ("hash", T.v("Expression", "Hash", VecM([7] * 28))),
        ("short hash", T.v("Expression", "Hash", VecM([7] * 5))),
        ("none", T.none()),
        ("assets", T.assets([T.asset(T.none(), T.none(), T.num(n))])),
        ("list", T.list([T.num(1)])),
    ]


DIRECTIVES = {
    "withdrawal": (["credential", "amount", "redeemer"], "compile_tx_body"),
    "vote_delegation_certificate": (["stake", "drep"], "compile_tx_body"),
    "treasury_donation": (["coin"], "compile_tx_body"),
    "cardano_publish": (["to", "amount", "datum", "version", "script"], "compile_tx_body"),
    "plutus_witness": (["version", "script"], "compile_witness_set"),
    "native_witness": (["script"], "compile_witness_set"),
}


def h_directive(ctx, tier, seed, name, vary):
    """one directive of the given name; the fields in `vary` are each absent or of any of 16
    expression kinds (the other fields well-formed): compile_tx_body / compile_witness_set /
    compile_redeemers return Ok or Err"""
    eng = ctx.eng; T = TIR(eng)
    kinds = _kinds(ctx, T)
    good = dict(credential=T.address([0xE0] + [7] * 28), amount=T.num(5), redeemer=T.none(), stake=T.address([0xE0] + [7] * 28),
                drep=T.bytes([9] * 28), coin=T.num(5), to=T.address([0x60] + [7] * 28), datum=None, version=T.num(3), script=T.bytes([1, 2, 3]))
    if name == "cardano_publish":
        good["amount"] = T.assets([T.asset(T.none(), T.none(), T.num(5))])
    entries = []
    chosen = []
    for f in DIRECTIVES[name][0]:
        if f in vary:
            k = eng.choose(len(kinds), "kind of field %s" % f)
            chosen.append("%s=%s" % (f, kinds[k][0]))
            v = kinds[k][1]
        else:
            v = good[f]
        if v is not None:
            entries.append((f, True, v))
    d = directive(eng, name, entries)
    tx = mk_tx(T, adhoc=[d], outputs=[T.st("Output", address=T.address([0x60] + [2] * 28), datum=T.none(), amount=T.assets([T.asset(T.none(), T.none(), T.num(1))]), optional=False)])
    net = eng.mk_variant("NetworkId", "Testnet", [])
    what = "%s directive (%s)" % (name, ", ".join(chosen))
    b = no_panic(ctx, what, lambda: models.deref(eng.call_fn(eng.find(short="compile_tx_body"), [ref_to_value(tx), net])))
    if b is None:
        return
    ctx.require(True, "compile_tx_body returns")
    if b.variant != "Ok":
        return
    no_panic(ctx, what, lambda: eng.call_fn(eng.find(short="compile_witness_set"), [ref_to_value(tx), ref_to_value(b.fields[0]), net]))
    no_panic(ctx, what, lambda: eng.call_fn(eng.find(short="compile_auxiliary_data"), [ref_to_value(tx)]))


def _dh(name, vary):
    return _h("c14m_directive_%s_%s" % (name, "_".join(vary)), (lambda ctx, tier, seed: h_directive(ctx, tier, seed, name, vary)),
              "%s directive, fields %s each absent or one of 16 expression kinds (integers: whole i128 range)" % (name, "/".join(vary)), max_paths=60000)


HARNESSES += [
    _dh("withdrawal", ["credential", "amount"]), _dh("withdrawal", ["redeemer"]),
    _dh("vote_delegation_certificate", ["stake", "drep"]),
    _dh("treasury_donation", ["coin"]),
    _dh("cardano_publish", ["to", "amount"]), _dh("cardano_publish", ["datum"]), _dh("cardano_publish", ["version", "script"]),
    _dh("plutus_witness", ["version", "script"]), _dh("native_witness", ["script"]),
]


# ---- the coercions of the Cardano compiler are total over expression kinds ---------------------------

def _expr_kinds(ctx, T):
    n = ctx.sym_int("n", "i128")
    addr = lambda bs: T.address(bs)
    return _kinds(ctx, T)[1:] + [
        ("empty asset list", T.assets([])),
        ("two assets", T.assets([T.asset(T.none(), T.none(), T.num(n)), T.asset(T.bytes([7] * 28), T.bytes([1]), T.num(1))])),
        ("asset with a non-number amount", T.assets([T.asset(T.none(), T.none(), T.string("x"))])),
        ("empty list", T.list([])),
        ("bool", T.boolean(True)),
        ("struct", T.struct(0, [T.num(1)])),
        ("utxo refs", T.v("Expression", "UtxoRefs", VecM([utxo_ref(T, [3] * 32, 1)]))),
        ("empty utxo refs", T.v("Expression", "UtxoRefs", VecM([]))),
        ("empty utxo set", T.v("Expression", "UtxoSet", MapM("HashSet", []))),
        ("string txid#index", T.string("ab#1")),
        ("string with a bad index", T.string("ab#x")),
        ("unreduced parameter", T.v("Expression", "EvalParam", BoxV(T.v("Param", "ExpectFees")))),
        ("byron address image", T.address([0x82, 0x00])),
        ("pointer address", T.address([0x40] + [7] * 28 + [1, 2, 3])),
    ]


COERCIONS = ["expr_into_number", "expr_into_metadatum", "expr_into_utxo_refs", "expr_into_assets", "expr_into_reward_account", "expr_into_stake_credential",
             "expr_into_address", "expr_into_address_keyhash", "expr_into_bytes", "expr_into_hash"]


def h_coercions(ctx, tier, seed, fns):
    """every coercion function of tx3-cardano on every kind of expression (33 kinds, integers over the
    whole i128 range, empty lists and sets, malformed addresses): Ok or Err"""
    eng = ctx.eng; T = TIR(eng)
    kinds = _expr_kinds(ctx, T)
    fn = fns[eng.choose(len(fns), "coercion")]
    kname, v = kinds[eng.choose(len(kinds), "expression kind")]
    net = eng.mk_variant("NetworkId", "Testnet", [])
    f = eng.find(short=fn)
    args = [ref_to_value(v)] + ([net] if fn in ("expr_into_reward_account", "expr_into_stake_credential", "expr_into_address") else [])
    tp = {"SIZE": 28} if fn == "expr_into_hash" else None
    r = no_panic(ctx, "%s on %s" % (fn, kname), lambda: eng.call_fn(f, args, tp))
    if r is not None:
        ctx.require(True, "%s returns" % fn)


for _i in range(2):
    HARNESSES.append(_h("c14m_coercions_%d" % _i, (lambda fs: lambda ctx, tier, seed: h_coercions(ctx, tier, seed, fs))(COERCIONS[_i::2]),
                        "coercions %s x 33 expression kinds (integers: whole i128 range)" % ", ".join(COERCIONS[_i::2]), max_paths=60000))


def h_wide_wallet_total(ctx, tier, seed):
    """input selection over a wallet wider than the search window does not panic (the C04 harness,
    whose store reaches MAX_SEARCH_SPACE_SIZE, run for its panic paths)"""
    from harness import c04
    c04.h_wide_wallet(ctx, tier, seed, 51 if tier == "quick" else 70)


HARNESSES.append(_h("c14m_wide_wallet", h_wide_wallet_total, "2 input blocks over a concrete wallet of 51 (quick) / 70 (thorough) UTxOs: more candidates than MAX_SEARCH_SPACE_SIZE",
                    crates=["tx3-resolver", "tx3-tir", "tx3-cardano"], max_paths=2000, time_limit=1200, max_steps=20000000))
