"""C05 (engine M part) — the fee written in the body is the fee reported, covers the final size,
and the resolve loop returns a fixed point.

(b) apply_fees + reduce + the fee cast of compile_tx_body: body.fee == f for every u64 f, and a
    `fees` leaf used in an output is substituted with the same f;
(c) Compiler::compile: reported fee = coefficient * |payload| + constant + margin of the payload
    it returns (payload length symbolic);
(d) resolve_tx / eval_pass (async state machines of the dump) against an *uninterpreted* compiler
    E = F(template, fee): every pass is evaluated with the previous pass's reported fee, and
    whenever the fee sequence settles by pass max_optimize_rounds + 2 the returned
    transaction is a fixed point (body fee == reported fee)."""
import z3
from values import *
import models
from harness.hutil import *
from harness.c06 import fees_leaf, ada, out, builtin, leaf
from harness.c07 import compiler_value
from harness.c08 import network

CRATES = ["tx3-resolver", "tx3-tir", "tx3-cardano"]
ASSUMPTIONS = ["C05/M: in (d) the compiler is an uninterpreted function of the fee applied to the template (payload injective in that fee, as the body carries it); templates that keep oscillating beyond max_optimize_rounds + 2 passes end at the round cap and are outside the claim; (c) treats the encoder as uninterpreted with a symbolic payload length below 2^32"]


def h_body_fee(ctx, tier, seed):
    eng = ctx.eng; T = TIR(eng)
    f = ctx.sym_int("fee", "u64")
    tx = mk_tx(T, fees=fees_leaf(T), outputs=[out(T, amount=builtin(T, "Sub", ada(T, T.num(1 << 70)), fees_leaf(T)))])
    r = models.deref(eng.call_fn(eng.fns["apply_fees"], [tx, f]))
    ctx.require(r.variant == "Ok", "apply_fees succeeds")
    r = models.deref(eng.call_fn(eng.fns["reduce::reduce"], [r.fields[0]]))
    ctx.require(r.variant == "Ok", "reduce succeeds")
    try:
        b = models.deref(eng.call_fn(eng.find(short="compile_tx_body"), [ref_to_value(r.fields[0]), network(eng)]))
    except Panic as p:
        ctx.violation("compile_tx_body panicked: %s" % p.kind, site=p.site)
        return
    ctx.require(b.variant == "Ok", "a template with fees compiles for every u64 fee", shape="template with fees rejected")
    if b.variant != "Ok":
        return
    bn = eng.tdef("TransactionBody", "struct")[1][2]
    body = models.deref(b.fields[0])
    ctx.require(eng.to_bv(body.fields[bn.index("fee")], 64) == f, "body.fee is the applied fee", shape="body fee differs from the applied fee")
    o = models.deref(models.deref(body.fields[bn.index("outputs")]).items[0])
    while isinstance(o, Agg) and o.ty != "GenPostAlonzoTransactionOutput" and o.fields:
        o = models.deref(o.fields[0])
    val = None
    for fld in o.fields:
        fld = models.deref(fld)
        if isinstance(fld, Agg) and fld.ty == "Value":
            val = fld
    ctx.require(val is not None and val.variant == "Coin", "the fee-dependent output is a lovelace value")
    if val is not None and val.variant == "Coin":
        ctx.require(z3.ZeroExt(64, eng.to_bv(val.fields[0], 64)) == z3.BitVecVal(1 << 70, 128) - z3.ZeroExt(64, f) if False else eng.to_bv(val.fields[0], 64) == z3.Extract(63, 0, z3.BitVecVal(1 << 70, 128) - z3.ZeroExt(64, f)) , "the output was computed with the same fee", shape="fee-dependent output computed with another fee")


def h_reported_fee(ctx, tier, seed):
    from harness.c10 import h_compile_wiring
    h_compile_wiring(ctx, tier, seed)


def h_loop(ctx, tier, seed, cap):
    eng = ctx.eng; T = TIR(eng)
    tx = mk_tx(T, fees=fees_leaf(T))
    anytir = eng.mk_variant("AnyTir", "V1Beta0", [tx])
    F = z3.Function("F!%s" % ctx.hname, z3.BitVecSort(64), z3.BitVecSort(64))
    log = []
    cq, cd = eng.tdef("CompiledTx", "struct")

    def compile_model(eng_, a, c):
        t = models.deref(a[1])
        txv = models.deref(t.fields[0])
        fe = models.deref(txv.fields[eng_.tdef("Tx", "struct")[1][2].index("fees")])
        fin = None
        if fe.variant == "Assets":
            fin = models.deref(models.deref(fe.fields[0]).items[0]).fields[2]
            fin = models.deref(fin).fields[0]
        elif fe.variant == "Number":
            fin = fe.fields[0]
        if fin is None:
            raise Unmodelled("compile called on a template without a constant fee: %r" % (fe,))
        fin = z3.Extract(63, 0, eng_.to_bv(fin, 128))
        fout = F(fin)
        log.append((fin, fout))
        vals = dict(payload=Opaque("payload", [fin]), hash=Opaque("hash", [fin]), fee=fout, ex_units=0)
        return ok(Agg(cq, None, 0, [vals[f] for f in cd[2]]))
    eng.models["Compiler::compile"] = compile_model
    eng.models["Node::apply@MockCompiler"] = None
    comp = Agg("MockCompiler", None, 0, [])
    # the mock compiler has no compiler ops to evaluate: visiting is the identity
    eng.models["Visitor::reduce"] = lambda e, a, c: ok(a[1])
    args = MapM("BTreeMap", [])
    store = Agg("Store", None, 0, [])
    try:
        r = models.deref(eng.block_on(eng.call_fn(eng.fns["resolve_tx"], [anytir, ref_to_value(args), ref_to_value(comp), ref_to_value(store), cap])))
    except Panic as p:
        eng.stats.panic_paths += 1
        ctx.violation("resolve_tx panicked: %s" % p.kind, site=p.site, shape="resolve_tx panics")
        return
    ctx.require(r.variant == "Ok", "a template without inputs resolves", shape="resolve_tx fails")
    if r.variant != "Ok":
        return
    res = models.deref(r.fields[0])
    # every pass uses the fee the previous pass reported (the first one uses 0)
    prev = z3.BitVecVal(0, 64)
    for i, (fin, fout) in enumerate(log):
        ctx.require(fin == prev, "pass %d is evaluated with the fee reported by pass %d" % (i + 1, i), shape="a pass evaluated with a stale fee")
        prev = fout
    fin_res = res.fields[cd[2].index("payload")].args[0]
    fout_res = res.fields[cd[2].index("fee")]
    m = max(cap, 3)
    f = [z3.BitVecVal(0, 64)]
    # passes evaluated by the loop: up to m + 2 (the pass after the cap is still compared); the
    # last of them is a fixed point exactly when the fee it reports equals the fee it was given
    for k in range(1, m + 4):
        f.append(F(f[-1]))
    stabilises = z3.Or(*[f[k - 1] == f[k - 2] for k in range(2, m + 4)])
    ctx.require(z3.Implies(stabilises, fout_res == fin_res), "when the fee settles by pass max_optimize_rounds + 2 the returned transaction is a fixed point (body fee == reported fee)",
                shape="intermediate round returned although the fee stabilises within the cap")


def h_loop3(ctx, tier, seed): h_loop(ctx, tier, seed, 3)
def h_loop0(ctx, tier, seed): h_loop(ctx, tier, seed, 0)
def h_loop5(ctx, tier, seed): h_loop(ctx, tier, seed, 5)


def h_missing_before_pass(ctx, tier, seed):
    """a missing argument is refused before any pass is evaluated"""
    eng = ctx.eng; T = TIR(eng)
    tx = mk_tx(T, fees=fees_leaf(T), outputs=[out(T, datum=leaf(T, "p"))])
    anytir = eng.mk_variant("AnyTir", "V1Beta0", [tx])
    calls = []
    eng.models["Compiler::compile"] = lambda e, a, c: calls.append(1) or err(Opaque("x"))
    eng.models["Visitor::reduce"] = lambda e, a, c: ok(a[1])
    comp = Agg("MockCompiler", None, 0, [])
    r = models.deref(eng.block_on(eng.call_fn(eng.fns["resolve_tx"], [anytir, ref_to_value(MapM("BTreeMap", [])), ref_to_value(comp), ref_to_value(Agg("Store", None, 0, [])), 3])))
    ctx.require(r.variant == "Err" and models.deref(r.fields[0]).variant == "MissingTxArg", "resolution refuses with MissingTxArg", shape="missing argument not refused by resolve_tx")
    ctx.require(not calls, "nothing is compiled before the arguments are checked", shape="a pass ran before the argument check")


def _h(name, fn, bounds, tier="quick", **kw):
    d = dict(name=name, fn=fn, crates=CRATES, bounds=bounds, tier=tier)
    d.update(kw)
    return d


HARNESSES = [
    _h("c05m_body_fee", h_body_fee, "fee: whole u64 range; template with `fees` as the tx fee and inside an output amount"),
    _h("c05m_reported_fee", h_reported_fee, "Compiler::compile; extra_fees in {None, Some(0), Some(350000)}; payload length symbolic (< 2^32)", crates=["tx3-cardano", "tx3-tir"]),
    _h("c05m_loop_cap3", h_loop3, "resolve_tx with max_optimize_rounds = 3 against an uninterpreted compiler F: u64 -> u64 (every fee sequence)", max_paths=100000),
    _h("c05m_loop_cap0", h_loop0, "resolve_tx with max_optimize_rounds = 0 (clamped to 3)", max_paths=100000),
    _h("c05m_loop_cap5", h_loop5, "resolve_tx with max_optimize_rounds = 5", max_paths=100000, tier="thorough"),
    _h("c05m_missing_before_pass", h_missing_before_pass, "one declared parameter, empty argument map"),
]
