"""C03 — input selection honours every stated constraint and finds a match if one exists.

Real MIR of tx3-resolver: TryFrom<InputQuery> for CanonicalQuery, narrow_search_space
(+ narrow_by_asset_class, Subset::{union, intersection}, SearchSpace::{include_*, take}),
InputSelector::{select, select_input, select_collateral, pick_from_set},
VectorSelector::{pick_single, pick_many}, find_first_excess_utxo and the CanonicalAssets
predicates they use — the async functions are the coroutine state machines of the dump, driven
to completion against an in-memory store model with symbolic contents."""
import itertools
import z3
from values import *
import models
from harness.hutil import *

CRATES = ["tx3-resolver", "tx3-tir"]
ASSUMPTIONS = [
    "C03: the UtxoStore is a model of its contract (narrow_refs: exactly the UTxOs at the address / holding the asset; fetch_utxos: exactly the stored UTxOs among the requested refs); futures are ready at first poll",
    "C03: VectorSelector::sort_candidates (f64 log/sqrt distance) is replaced by 'any permutation of the candidates' (all permutations explored): soundness and completeness as stated do not depend on the order",
    "C03: store of N UTxOs over 2 addresses, lovelace + one token; amounts within [0, 2^16) in the quick tier and [0, 2^40) in the thorough tier (128-bit arithmetic on zero-extended values); the window of 50 never binds",
]

ADDR_A, ADDR_B = 1, 2
TOKEN_P, TOKEN_N = P1, N1


def addr_bytes(tag):
    return [0x60] + [tag] + [0x11] * 27


class Store:
    """N UTxOs: address tag symbolic in {A, B}, lovelace symbolic, token presence/amount symbolic"""

    def __init__(s, ctx, n):
        s.n = n
        eng = ctx.eng
        T = TIR(eng)
        s.refs = [utxo_ref(T, [0xC0 + i] * 32, 0) for i in range(n)]
        s.addr = [ctx.sym_int("utxo%d.addr" % i, "u8") for i in range(n)]
        bits = getattr(ctx, "amount_bits", None) or (16 if ctx.tier == "quick" else 40)
        s.bits = bits
        s.ada = [ctx.sym_amount("utxo%d.lovelace" % i, bits) for i in range(n)]
        s.has_tok = [ctx.sym_bool("utxo%d.has_token" % i) for i in range(n)]
        s.tok = [ctx.sym_amount("utxo%d.token" % i, bits) for i in range(n)]
        for i in range(n):
            eng.assume(z3.Or(s.addr[i] == ADDR_A, s.addr[i] == ADDR_B))
            eng.assume(s.ada[i] >= 1)
            eng.assume(s.tok[i] >= 1)
        s.T = T

    def utxo(s, i):
        assets = Agg("CanonicalAssets", None, 0, [MapM("HashMap", [[cls_naked(), True, s.ada[i]], [cls_defined(TOKEN_P, TOKEN_N), s.has_tok[i], s.tok[i]]])])
        return s.T.st("Utxo", ref=models.vclone(None, s.refs[i]), address=VecM([0x60, s.addr[i]] + [0x11] * 27), assets=assets, datum=none(), script=none())

    def index_of(s, eng, ref):
        for i, r in enumerate(s.refs):
            if models.veq(eng, r, ref) is True:
                return i
        return None

    def token_amount(s, i):
        return z3.If(s.has_tok[i], s.tok[i], z3.BitVecVal(0, 128))

    def install(s, eng):
        store = s

        def narrow_refs(eng_, a, c):
            pat = models.deref(a[1])
            out = []
            for i in range(store.n):
                if pat.variant == "ByAddress":
                    want = models.deref(pat.fields[0]).items
                    cond = models.veq(eng_, VecM(list(want)), VecM([0x60, store.addr[i]] + [0x11] * 27))
                elif pat.variant == "ByAsset":
                    pol, nm = models.deref(pat.fields[0]).items, models.deref(pat.fields[1]).items
                    same = models.veq(eng_, VecM(list(pol)), VecM(TOKEN_P)) is True and models.veq(eng_, VecM(list(nm)), VecM(TOKEN_N)) is True
                    cond = store.has_tok[i] if same else False
                else:
                    raise Unmodelled("store pattern " + pat.variant)
                out.append([models.vclone(eng_, store.refs[i]), cond, unit()])
            return models.ReadyFuture(ok(MapM("HashSet", out)))

        def fetch_utxos(eng_, a, c):
            want = models.deref(a[1])
            out = []
            for i in range(store.n):
                j = None
                for k, (key, p, _) in enumerate(want.entries):
                    if models.veq(eng_, key, store.refs[i]) is True:
                        j = k
                pres = want.entries[j][1] if j is not None else False
                out.append([store.utxo(i), pres, unit()])
            return models.ReadyFuture(ok(MapM("HashSet", out)))
        eng.models["UtxoStore::narrow_refs"] = narrow_refs
        eng.models["UtxoStore::fetch_utxos"] = fetch_utxos

        def sort_any(eng_, args):
            ss = models.deref(args[0])
            items = []
            for e in ss.entries:
                if eng_.decide(e[1]):
                    items.append(e[0])
            perms = list(itertools.permutations(range(len(items))))
            k = eng_.choose(len(perms), "candidate order")
            return VecM([items[i] for i in perms[k]])
        for name in eng.fns:
            if name.endswith("::sort_candidates"):
                eng.overrides[name] = sort_any


def build_query(ctx, store, addr_kind, ref_kind, want_ada, want_tok, many, collateral):
    eng = ctx.eng; T = store.T
    address = T.none() if addr_kind == 0 else T.address(addr_bytes(ADDR_A if addr_kind == 1 else ADDR_B))
    if ref_kind == 0:
        rf = T.none()
    elif ref_kind == 1:
        rf = T.v("Expression", "UtxoRefs", VecM([models.vclone(eng, store.refs[0])]))
    else:
        rf = T.v("Expression", "UtxoRefs", VecM([utxo_ref(T, [0xEE] * 32, 7)]))      # dangling
    assets = []
    q_ada = q_tok = None
    if want_ada:
        q_ada = ctx.sym_amount("query.lovelace", store.bits)
        assets.append(T.asset(T.none(), T.none(), T.num(q_ada)))
    if want_tok:
        q_tok = ctx.sym_amount("query.token", store.bits)
        assets.append(T.asset(T.bytes(TOKEN_P), T.bytes(TOKEN_N), T.num(q_tok)))
    min_amount = T.assets(assets) if (want_ada or want_tok) else T.none()
    iq = T.st("InputQuery", address=address, min_amount=min_amount, ref=rf, many=many, collateral=collateral)
    return iq, q_ada, q_tok


def run_selection(ctx, store, iq, selector=None):
    """-> ('ok', [indices of bound utxos]) | ('err', error) | ('toobroad',)"""
    eng = ctx.eng
    st = Agg("Store", None, 0, [])
    cq = models.deref(eng.call_fn(eng.find(trait="TryFrom", self_ty="CanonicalQuery", method="try_from"), [iq]))
    if cq.variant != "Ok":
        return ("err", cq.fields[0]), None
    q = cq.fields[0]
    sp = models.deref(eng.block_on(eng.call_fn(eng.find(short="narrow_search_space"), [ref_to_value(st), ref_to_value(q)])))
    if sp.variant != "Ok":
        return ("err", sp.fields[0]), None
    if selector is None:
        selector = eng.call_fn(eng.find(short="InputSelector::new"), [ref_to_value(st)])
    sel = models.deref(eng.block_on(eng.call_fn(eng.find(short="InputSelector::select"), [ref_to_value(selector), ref_to_value(sp.fields[0]), ref_to_value(q)])))
    if sel.variant != "Ok":
        return ("err", sel.fields[0]), selector
    chosen = []
    for key, p, _ in models.deref(sel.fields[0]).entries:
        if eng.decide(p):
            i = store.index_of(eng, models.deref(key).fields[0])
            chosen.append(i)
    return ("ok", chosen), selector


def check_selection(ctx, store, res, addr_kind, ref_kind, q_ada, q_tok, many, collateral, taken=()):
    eng = ctx.eng
    n = store.n
    A = lambda i: store.ada[i]
    K = lambda i: store.token_amount(i)
    need_ada = q_ada if q_ada is not None else z3.BitVecVal(0, 128)
    need_tok = q_tok if q_tok is not None else z3.BitVecVal(0, 128)
    free = [i for i in range(n) if i not in taken]

    def cand(i):
        c = []
        if addr_kind:
            c.append(store.addr[i] == (ADDR_A if addr_kind == 1 else ADDR_B))
        if ref_kind == 1:
            c.append(i == 0)
        if ref_kind == 2:
            c.append(False)
        if not addr_kind and ref_kind == 0:
            # no `from`, no ref: the candidates are the holders of every requested token
            if q_tok is not None:
                c.append(z3.Or(need_tok == 0, store.has_tok[i]))
        if collateral:
            c.append(z3.Not(store.has_tok[i]))
        return b_and(*c)

    def covers(i):
        return z3.And(A(i) >= need_ada, K(i) >= need_tok)
    if res[0] == "ok":
        chosen = res[1]
        ctx.require(None not in chosen, "every bound UTxO is in the store", shape="bound UTxO not in the store")
        chosen = [i for i in chosen if i is not None]
        ctx.require(all(i not in taken for i in chosen), "no UTxO another block has taken is bound", shape="UTxO reused")
        for i in chosen:
            if addr_kind:
                ctx.require(store.addr[i] == (ADDR_A if addr_kind == 1 else ADDR_B), "bound UTxOs sit at the `from` address", shape="bound UTxO not at `from`" + (" (ref given)" if ref_kind else ""))
            if ref_kind:
                ctx.require(ref_kind == 1 and i == 0, "bound UTxOs are among the `ref` references", shape="bound UTxO is not the ref" + (" (from given)" if addr_kind else ""))
            if collateral:
                ctx.require(z3.Not(store.has_tok[i]), "collateral is pure lovelace", shape="collateral holds tokens")
        if chosen:
            if not many:
                ctx.require(len(chosen) == 1, "a single-UTxO input receives exactly one UTxO", shape="single input bound to several UTxOs")
                ctx.require(covers(chosen[0]), "the single UTxO alone covers min_amount", shape="single UTxO does not cover min_amount")
            else:
                sa = sum([A(i) for i in chosen], z3.BitVecVal(0, 128)); sk = sum([K(i) for i in chosen], z3.BitVecVal(0, 128))
                ctx.require(z3.And(sa >= need_ada, sk >= need_tok), "the bound set covers min_amount in every class", shape="bound set does not cover min_amount")
        # completeness
        if not chosen:
            if not many:
                exists = z3.Or(*[z3.And(z3b(cand(i)), covers(i)) for i in free]) if free else z3.BoolVal(False)
            else:
                sa = sum([z3.If(z3b(cand(i)), A(i), z3.BitVecVal(0, 128)) for i in free], z3.BitVecVal(0, 128))
                sk = sum([z3.If(z3b(cand(i)), K(i), z3.BitVecVal(0, 128)) for i in free], z3.BitVecVal(0, 128))
                exists = z3.And(sa >= need_ada, sk >= need_tok, z3.Or(*[z3b(cand(i)) for i in free]) if free else z3.BoolVal(False))
            ctx.require(z3.Not(exists), "selection succeeds when the candidates contain a covering UTxO / set", shape="unresolved although a covering candidate exists (%s)" % ("many" if many else "single"))
    return res


def h_select(ctx, tier, seed, n=2, addr_kinds=(0, 1, 2), ref_kinds=(0, 1, 2), fixed=None, bits=None):
    eng = ctx.eng
    if bits:
        # three-term sums over wide vectors dominate the solver time: three-candidate stores use narrow
        # amounts (quick) / moderately narrow ones (thorough); two-candidate stores keep 16 / 40 bits
        ctx.amount_bits = bits if tier == "quick" else max(bits, 10)
    store = Store(ctx, n)
    store.install(eng)
    addr_kind = addr_kinds[eng.choose(len(addr_kinds), "query address")]
    ref_kind = ref_kinds[eng.choose(len(ref_kinds), "query ref")]
    fixed = fixed or {}
    pick = lambda k, what: fixed[k] if k in fixed else (eng.choose(2, what) == 1)
    want_ada = pick("want_ada", "lovelace requested")
    want_tok = pick("want_tok", "token requested")
    many = pick("many", "many")
    collateral = pick("collateral", "collateral")
    iq, q_ada, q_tok = build_query(ctx, store, addr_kind, ref_kind, want_ada, want_tok, many, collateral)
    try:
        res, _ = run_selection(ctx, store, iq)
    except Panic as p:
        eng.stats.panic_paths += 1
        if p.kind == "overflow":
            return
        ctx.violation("selection panicked: %s" % p.kind, site=p.site, shape="selection panics: %s" % p.kind)
        return
    if res[0] == "err":
        e = models.deref(res[1])
        if e.variant == "InputQueryTooBroad":
            # nothing constrains the search: the property's candidate set is undefined
            ctx.require(addr_kind == 0 and ref_kind == 0, "only an unconstrained query is rejected as too broad", shape="constrained query rejected as too broad")
            return
        ctx.violation("selection failed with %s" % e.variant, shape="selection error %s" % e.variant)
        return
    check_selection(ctx, store, res, addr_kind, ref_kind, q_ada, q_tok, many, collateral)


def _mk(n, ak, rk):
    return lambda ctx, tier, seed: h_select(ctx, tier, seed, n, addr_kinds=(ak,), ref_kinds=(rk,))


def _h(name, fn, bounds, tier="quick", **kw):
    d = dict(name=name, fn=fn, crates=CRATES, bounds=bounds, tier=tier)
    d.update(kw)
    return d


AK = {0: "nofrom", 1: "fromA", 2: "fromB"}
RK = {0: "noref", 1: "ownref", 2: "dangling"}
Q = "min_amount over lovelace and one token (each present/absent, amount symbolic) x {single, many} x {input, collateral}; every candidate order"
HARNESSES = []
for ak in (0, 1, 2):
    for rk in (0, 1, 2):
        HARNESSES.append(_h("c03_n2_%s_%s" % (AK[ak], RK[rk]), _mk(2, ak, rk),
                            "store of 2 UTxOs (address tag, lovelace, token presence and amount symbolic); query %s / %s; %s" % (AK[ak], RK[rk], Q),
                            max_paths=400000, time_limit=1200))
# three candidates in the quick tier for the multi-UTxO accumulation and trimming steps (which need >= 3 UTxOs to differ from n = 2)
HARNESSES.append(_h("c03_n3_many_lovelace", lambda ctx, tier, seed: h_select(ctx, tier, seed, 3, addr_kinds=(1,), ref_kinds=(0,), fixed=dict(want_ada=True, want_tok=False, many=True, collateral=False), bits=6),
                    "store of 3 UTxOs; query fromA / noref, many, lovelace threshold symbolic; amounts below 2^6 (quick) / 2^10 (thorough); every candidate order", max_paths=400000, time_limit=1200))
HARNESSES.append(_h("c03_n3_many_token", lambda ctx, tier, seed: h_select(ctx, tier, seed, 3, addr_kinds=(1,), ref_kinds=(0,), fixed=dict(want_ada=False, want_tok=True, many=True, collateral=False), bits=6),
                    "store of 3 UTxOs; query fromA / noref, many, token threshold symbolic; amounts below 2^6 (quick) / 2^10 (thorough); every candidate order", max_paths=400000, time_limit=1200))
for ak, rk in ((1, 0), (0, 0), (0, 1), (1, 1)):
    # the two `noref` stores are split by {single, many} x {input, collateral} so that each part ends well within its time limit
    parts = [(m, c, None) for m in (False, True) for c in (False, True)] if rk == 0 else [None]
    # the heaviest part (many, input) is split once more by what is requested; lovelace-only and token-only
    # requests over a party's UTxOs are the quick-tier harnesses c03_n3_many_lovelace / c03_n3_many_token
    parts = [p_ for p_ in parts if p_ is None or (p_[0], p_[1]) != (True, False)] + ([(True, False, "both"), (True, False, "neither")] + ([(True, False, "lovelace"), (True, False, "token")] if ak == 0 else []) if rk == 0 else [])
    for part in parts:
        fixed = dict(many=part[0], collateral=part[1]) if part else None
        suffix = ("_%s_%s" % ("many" if part[0] else "single", "collateral" if part[1] else "input")) if part else ""
        if part and part[2]:
            fixed.update(want_ada=part[2] in ("both", "lovelace"), want_tok=part[2] in ("both", "token"))
            suffix += "_" + part[2]
        HARNESSES.append(_h("c03_n3_%s_%s%s" % (AK[ak], RK[rk], suffix),
                            (lambda ak, rk, fixed: lambda ctx, tier, seed: h_select(ctx, tier, seed, 3, addr_kinds=(ak,), ref_kinds=(rk,), bits=10, fixed=fixed))(ak, rk, fixed),
                            "store of 3 UTxOs (amounts below 2^10); query %s / %s%s; %s" % (AK[ak], RK[rk], (" (%s)" % suffix.strip("_").replace("_", ", ")) if part else "", Q),
                            tier="thorough", max_paths=2000000, time_limit=6000))
