"""C02 (engine M part) — reducer arithmetic and indexing on the MIR of tx3-tir, in both
overflow modes (overflow-checks=on: the debug/test profile, where an overflow would be a panic
path; overflow-checks=off: the release profile, where it would wrap)."""
import z3
from values import *
import models
from harness.hutil import *

CRATES = ["tx3-tir"]
ASSUMPTIONS = ["C02/M: scalars are whole-range i128; list/struct/tuple shapes are concrete with 2 elements"]


def _arith(ctx, method, two):
    eng = ctx.eng
    T = TIR(eng)
    x = ctx.sym_int("x", "i128")
    y = ctx.sym_int("y", "i128")
    f = eng.find(trait="Arithmetic", self_ty="i128", method=method)
    try:
        r = eng.call_fn(f, [x, T.num(y)] if two else [x])
    except Panic as p:
        eng.stats.panic_paths += 1
        ctx.violation("%s on integers panics (%s)" % (method, p.kind), shape="reducer %s panics" % method, site=p.site)
        return
    r = models.deref(r)
    if method == "add":
        exact_ok = no_signed_overflow_add(x, y); want = x + y
    elif method == "sub":
        exact_ok = no_signed_overflow_sub(x, y); want = x - y
    else:
        exact_ok = x != z3.BitVecVal(INT128_MIN, 128); want = -x
    if r.variant == "Ok":
        n = expr_num(r.fields[0])
        ctx.require(n is not None, "%s of numbers yields a number" % method)
        if n is not None:
            ctx.require(z3.And(exact_ok, eng.to_bv(n, 128) == want), "%s: Ok carries the exact mathematical result" % method, shape="reducer %s wraps" % method)
    else:
        # `sub` is implemented as negate-then-add: an Err for y == i128::MIN is a (conservative)
        # failure, not a wrong value, and is not held against the property
        may_fail = z3.Not(exact_ok) if method != "sub" else z3.Or(z3.Not(exact_ok), y == z3.BitVecVal(INT128_MIN, 128))
        ctx.require(may_fail, "%s: Err only when the result (or the negated operand) does not fit i128" % method, shape="reducer %s rejects a representable result" % method)


def h_add(ctx, tier, seed): _arith(ctx, "add", True)
def h_sub(ctx, tier, seed): _arith(ctx, "sub", True)
def h_neg(ctx, tier, seed): _arith(ctx, "neg", False)


def h_none_sub(ctx, tier, seed):
    """None - x == -x (None acts as zero on either side)"""
    eng = ctx.eng
    T = TIR(eng)
    x = ctx.sym_int("x", "i128")
    eng.assume(x != z3.BitVecVal(INT128_MIN, 128))
    f = eng.find(trait="Arithmetic", self_ty="Expression", method="sub")
    r = models.deref(eng.call_fn(f, [T.none(), T.num(x)]))
    if r.variant == "Ok":
        n = expr_num(r.fields[0])
        ctx.require(n is not None and True, "None - x is a number")
        if n is not None:
            ctx.require(eng.to_bv(n, 128) == -x, "None - x == -x", shape="None - x is not -x")
    g = eng.find(trait="Arithmetic", self_ty="Expression", method="add")
    r2 = models.deref(eng.call_fn(g, [T.none(), T.num(x)]))
    ctx.require(r2.variant == "Ok" and expr_num(r2.fields[0]) is not None, "None + x is a number")
    if r2.variant == "Ok":
        ctx.require(eng.to_bv(expr_num(r2.fields[0]), 128) == x, "None + x == x")
    r3 = models.deref(eng.call_fn(f, [T.num(x), T.none()]))
    ctx.require(r3.variant == "Ok", "x - None is Ok")
    if r3.variant == "Ok":
        ctx.require(eng.to_bv(expr_num(r3.fields[0]), 128) == x, "x - None == x")


def _index(ctx, kind):
    eng = ctx.eng
    T = TIR(eng)
    n = ctx.sym_int("n", "i128")
    a = ctx.sym_int("a", "i128")
    b = ctx.sym_int("b", "i128")
    if kind == "list":
        c = T.list([T.num(a), T.num(b)])
        f = eng.find(trait="Indexable", self_ty="Expression", method="index")
    elif kind == "tuple":
        c = T.tuple(T.num(a), T.num(b))
        f = eng.find(trait="Indexable", self_ty="Expression", method="index")
    elif kind == "struct_expr":
        c = T.struct(0, [T.num(a), T.num(b)])
        f = eng.find(trait="Indexable", self_ty="Expression", method="index")
    else:
        c = T.st("StructExpr", constructor=0, fields=VecM([T.num(a), T.num(b)]))
        f = eng.find(trait="Indexable", self_ty="StructExpr", method="index")
    try:
        r = models.deref(eng.call_fn(f, [ref_to_value(c), T.num(n)]))
    except Panic as p:
        eng.stats.panic_paths += 1
        ctx.violation("index on %s panics (%s)" % (kind, p.kind), site=p.site)
        return
    if r.variant == "Some":
        v = expr_num(r.fields[0])
        ctx.require(v is not None, "%s[n] is an element" % kind)
        if v is not None:
            ctx.require(z3.Or(z3.And(n == 0, eng.to_bv(v, 128) == a), z3.And(n == 1, eng.to_bv(v, 128) == b)),
                        "%s[n] selects element n for in-range n only" % kind, shape="index %s truncates or mis-selects" % kind)
    else:
        ctx.require(z3.And(n != 0, n != 1), "%s[n] finds in-range elements" % kind, shape="index %s misses an in-range element" % kind)


def h_index_list(ctx, tier, seed): _index(ctx, "list")
def h_index_tuple(ctx, tier, seed): _index(ctx, "tuple")
def h_index_struct_expr(ctx, tier, seed): _index(ctx, "struct_expr")
def h_index_struct(ctx, tier, seed): _index(ctx, "struct")


def _h(name, fn, bounds, tier="quick", **kw):
    d = dict(name=name, fn=fn, crates=CRATES, bounds=bounds, tier=tier)
    d.update(kw)
    return d


W = "x, y: whole i128 range"
HARNESSES = []
for ovf in ("on", "off"):
    sfx = "" if ovf == "on" else "_release"
    HARNESSES += [
        _h("c02m_add" + sfx, h_add, W + "; overflow-checks=" + ovf, overflow=ovf),
        _h("c02m_sub" + sfx, h_sub, W + "; overflow-checks=" + ovf, overflow=ovf),
        _h("c02m_neg" + sfx, h_neg, W + "; overflow-checks=" + ovf, overflow=ovf),
    ]
HARNESSES += [
    _h("c02m_none_is_zero", h_none_sub, "x: i128 without MIN"),
    _h("c02m_index_list", h_index_list, "n, elements: whole i128 range; 2-element list"),
    _h("c02m_index_tuple", h_index_tuple, "n, elements: whole i128 range"),
    _h("c02m_index_struct_expr", h_index_struct_expr, "n, fields: whole i128 range; 2-field record"),
    _h("c02m_index_struct", h_index_struct, "n, fields: whole i128 range; 2-field record"),
]
