"""C02 (engine M part) — reducer arithmetic and indexing on the MIR of tx3-tir, in both
overflow modes (overflow-checks=on: the debug/test profile, where an overflow would be a panic
path; overflow-checks=off: the release profile, where it would wrap)."""
import z3
from values import *
import models
from harness.hutil import *

CRATES = ["tx3-tir"]
ASSUMPTIONS = ["C02/M: scalars are whole-range i128; list/struct/tuple shapes are concrete with 2 elements"]


def _arith(ctx, method, two):
    eng = ctx.eng
    T = TIR(eng)
    x = ctx.sym_int("x", "i128")
    y = ctx.sym_int("y", "i128")
    f = eng.find(trait="Arithmetic", self_ty="i128", method=method)
    try:
        r = eng.call_fn(f, [x, T.num(y)] if two else [x])
    except Panic as p:
        eng.stats.panic_paths += 1
        ctx.violation("%s on integers panics (%s)" % (method, p.kind), shape="reducer %s panics" % method, site=p.site)
        return
    r = models.deref(r)
    if method == "add":
        exact_ok = no_signed_overflow_add(x, y); want = x + y
    elif method == "sub":
        exact_ok = no_signed_overflow_sub(x, y); want = x - y
    else:
        exact_ok = x != z3.BitVecVal(INT128_MIN, 128); want = -x
    if r.variant == "Ok":
        n = expr_num(r.fields[0])
        ctx.require(n is not None, "%s of numbers yields a number" % method)
        if n is not None:
            ctx.require(z3.And(exact_ok, eng.to_bv(n, 128) == want), "%s: Ok carries the exact mathematical result" % method, shape="reducer %s wraps" % method)
    else:
        # `sub` is implemented as negate-then-add: an Err for y == i128::MIN is a (conservative)
        # failure, not a wrong value, and is not held against the property
        may_fail = z3.Not(exact_ok) if method != "sub" else z3.Or(z3.Not(exact_ok), y == z3.BitVecVal(INT128_MIN, 128))
        ctx.require(may_fail, "%s: Err only when the result (or the negated operand) does not fit i128" % method, shape="reducer %s rejects a representable result" % method)


def h_add(ctx, tier, seed): _arith(ctx, "add", True)
def h_sub(ctx, tier, seed): _arith(ctx, "sub", True)
def h_neg(ctx, tier, seed): _arith(ctx, "neg", False)


def h_none_sub(ctx, tier, seed):
    """None - x == -x (None acts as zero on either side)"""
    eng = ctx.eng
    T = TIR(eng)
    x = ctx.sym_int("x", "i128")
    eng.assume(x != z3.BitVecVal(INT128_MIN, 128))
    f = eng.find(trait="Arithmetic", self_ty="Expression", method="sub")
    r = models.deref(eng.call_fn(f, [T.none(), T.num(x)]))
    if r.variant == "Ok":
        n = expr_num(r.fields[0])
        ctx.require(n is not None and True, "None - x is a number")
        if n is not None:
            ctx.require(eng.to_bv(n, 128) == -x, "None - x == -x", shape="None - x is not -x")
    g = eng.find(trait="Arithmetic", self_ty="Expression", method="add")
    r2 = models.deref(eng.call_fn(g, [T.none(), T.num(x)]))
    ctx.require(r2.variant == "Ok" and expr_num(r2.fields[0]) is not None, "None + x is a number")
    if r2.variant == "Ok":
        ctx.require(eng.to_bv(expr_num(r2.fields[0]), 128) == x, "None + x == x")
    r3 = models.deref(eng.call_fn(f, [T.num(x), T.none()]))
    ctx.require(r3.variant == "Ok", "x - None is Ok")
    if r3.variant == "Ok":
        ctx.require(eng.to_bv(expr_num(r3.fields[0]), 128) == x, "x - None == x")


def _index(ctx, kind):
    eng = ctx.eng
    T = TIR(eng)
    n = ctx.sym_int("n", "i128")
    a = ctx.sym_int("a", "i128")
    b = ctx.sym_int("b", "i128")
    if kind == "list":
        c = T.list([T.num(a), T.num(b)])
        f = eng.find(trait="Indexable", self_ty="Expression", method="index")
    elif kind == "tuple":
        c = T.tuple(T.num(a), T.num(b))
        f = eng.find(trait="Indexable", self_ty="Expression", method="index")
    elif kind == "struct_expr":
        c = T.struct(0, [T.num(a), T.num(b)])
        f = eng.find(trait="Indexable", self_ty="Expression", method="index")
    else:
        c = T.st("StructExpr", constructor=0, fields=VecM([T.num(a), T.num(b)]))
        f = eng.find(trait="Indexable", self_ty="StructExpr", method="index")
    try:
        r = models.deref(eng.call_fn(f, [ref_to_value(c), T.num(n)]))
    except Panic as p:
        eng.stats.panic_paths += 1
        ctx.violation("index on %s panics (%s)" % (kind, p.kind), site=p.site)
        return
    if r.variant == "Some":
        v = expr_num(r.fields[0])
        ctx.require(v is not None, "%s[n] is an element" % kind)
        if v is not None:
            ctx.require(z3.Or(z3.And(n == 0, eng.to_bv(v, 128) == a), z3.And(n == 1, eng.to_bv(v, 128) == b)),
                        "%s[n] selects element n for in-range n only" % kind, shape="index %s truncates or mis-selects" % kind)
    else:
        ctx.require(z3.And(n != 0, n != 1), "%s[n] finds in-range elements" % kind, shape="index %s misses an in-range element" % kind)


def h_index_list(ctx, tier, seed): _index(ctx, "list")
def h_index_tuple(ctx, tier, seed): _index(ctx, "tuple")
def h_index_struct_expr(ctx, tier, seed): _index(ctx, "struct_expr")
def h_index_struct(ctx, tier, seed): _index(ctx, "struct")


def _h(name, fn, bounds, tier="quick", **kw):
    d = dict(name=name, fn=fn, crates=CRATES, bounds=bounds, tier=tier)
    d.update(kw)
    return d


W = "x, y: whole i128 range"
HARNESSES = []
for ovf in ("on", "off"):
    sfx = "" if ovf == "on" else "_release"
    HARNESSES += [
        _h("c02m_add" + sfx, h_add, W + "; overflow-checks=" + ovf, overflow=ovf),
        _h("c02m_sub" + sfx, h_sub, W + "; overflow-checks=" + ovf, overflow=ovf),
        _h("c02m_neg" + sfx, h_neg, W + "; overflow-checks=" + ovf, overflow=ovf),
    ]
HARNESSES += [
    _h("c02m_none_is_zero", h_none_sub, "x: i128 without MIN"),
    _h("c02m_index_list", h_index_list, "n, elements: whole i128 range; 2-element list"),
    _h("c02m_index_tuple", h_index_tuple, "n, elements: whole i128 range"),
    _h("c02m_index_struct_expr", h_index_struct_expr, "n, fields: whole i128 range; 2-field record"),
    _h("c02m_index_struct", h_index_struct, "n, fields: whole i128 range; 2-field record"),
]


# ---- value aggregation of an output (tx3-cardano) and directive amounts ---------------------

def h_aggregate_lovelace(ctx, tier, seed):
    """an output whose (client-built) asset list holds two lovelace entries: the output carries
    their exact sum or compilation fails — never a wrapped sum, never a panic"""
    import mharness
    eng = mharness.engine_for(["tx3-cardano", "tx3-tir"])
    ctx.eng = eng
    T = TIR(eng)
    x = ctx.sym_int("x", "i128"); y = ctx.sym_int("y", "i128")
    eng.assume(z3.And(x >= 0, x < (1 << 64), y >= 0, y < (1 << 64)))
    o = T.st("Output", address=T.address([0x60] + [2] * 28), datum=T.none(), amount=T.assets([T.asset(T.none(), T.none(), T.num(x)), T.asset(T.none(), T.none(), T.num(y))]), optional=False)
    net = eng.mk_variant("NetworkId", "Testnet", [])
    try:
        r = models.deref(eng.call_fn(eng.find(short="compile_output_block"), [ref_to_value(o), net]))
    except Panic as p:
        eng.stats.panic_paths += 1
        ctx.violation("compile_output_block panicked: %s" % p.kind, site=p.site, shape="output value aggregation: %s" % p.kind)
        return
    if r.variant != "Ok":
        ctx.require(x + y >= (1 << 64), "a representable lovelace total is accepted", shape="representable lovelace total rejected")
        return
    from harness.c01 import decode_output
    d = decode_output(eng, r.fields[0])
    ctx.require(z3.ZeroExt(64, eng.to_bv(d["coin"], 64)) == x + y, "the output's lovelace is the exact sum of its entries", shape="lovelace total wrapped")


def h_directive_amounts(ctx, tier, seed):
    """withdrawal amount, treasury donation, metadata label: exact or an error, for every i128"""
    import mharness
    eng = mharness.engine_for(["tx3-cardano", "tx3-tir"])
    ctx.eng = eng
    T = TIR(eng)
    v = ctx.sym_int("v", "i128")
    which = eng.choose(3, "site")
    net = eng.mk_variant("NetworkId", "Testnet", [])
    fits = z3.And(v >= 0, v < (1 << 64))
    try:
        if which == 0:
            d = T.st("AdHocDirective", name=StrM("withdrawal", True), data=MapM("HashMap", [[StrM("credential", True), True, T.address([0xE0] + [7] * 28)], [StrM("amount", True), True, T.num(v)], [StrM("redeemer", True), True, T.none()]]))
            r = models.deref(eng.call_fn(eng.find(short="compile_withdrawal_directive"), [ref_to_value(d), net]))
            got = models.deref(r.fields[0]).fields[1] if r.variant == "Ok" else None
            ok_when = fits
        elif which == 1:
            d = T.st("AdHocDirective", name=StrM("treasury_donation", True), data=MapM("HashMap", [[StrM("coin", True), True, T.num(v)]]))
            tx = mk_tx(T, adhoc=[d])
            r = models.deref(eng.call_fn(eng.find(short="compile_donation"), [ref_to_value(tx)]))
            got = None
            if r.variant == "Ok":
                o = models.deref(r.fields[0])
                ctx.require(o.variant == "Some", "the donation is present")
                got = models.deref(o.fields[0]).fields[0] if o.variant == "Some" else None
            ok_when = z3.And(v > 0, v < (1 << 64))
        else:
            tx = mk_tx(T, metadata=[T.st("Metadata", key=T.num(v), value=T.string("m"))])
            r = models.deref(eng.call_fn(eng.find(short="compile_auxiliary_data"), [ref_to_value(tx)]))
            got = None
            if r.variant == "Ok":
                o = models.deref(r.fields[0])
                if o.variant == "Some":
                    a = models.deref(o.fields[0])
                    mm = None
                    stack = [a]
                    while stack and mm is None:
                        cur = models.deref(stack.pop())
                        if isinstance(cur, MapM):
                            mm = cur
                        elif isinstance(cur, Agg):
                            stack += list(cur.fields)
                    got = mm.entries[0][0] if mm and mm.entries else None
            ok_when = fits
    except Panic as p:
        eng.stats.panic_paths += 1
        ctx.violation("directive amount site %d panicked: %s" % (which, p.kind), site=p.site, shape="directive amount: %s" % p.kind)
        return
    site = ["withdrawal amount", "treasury donation", "metadata label"][which]
    if r.variant == "Ok":
        ctx.require(got is not None, "%s: a value is produced" % site)
        if got is not None:
            ctx.require(z3.And(ok_when, z3.ZeroExt(64, eng.to_bv(got, 64)) == v), "%s is the exact value of the expression" % site, shape="%s wrapped or truncated" % site)
    else:
        ctx.require(z3.Not(ok_when), "%s: a representable value is accepted" % site, shape="%s rejected although representable" % site)


HARNESSES += [
    _h("c02m_aggregate_lovelace", h_aggregate_lovelace, "output with two lovelace entries x, y in [0, 2^64)", crates=["tx3-cardano", "tx3-tir"]),
    _h("c02m_directive_amounts", h_directive_amounts, "withdrawal amount / donation / metadata label: whole i128 range", crates=["tx3-cardano", "tx3-tir"]),
]


def h_aggregate_token(ctx, tier, seed):
    """an output naming one token twice with amounts x, y in [1, 2^64): it carries x + y of the
    token, or compilation fails — the token is never dropped"""
    import mharness
    eng = mharness.engine_for(["tx3-cardano", "tx3-tir"])
    ctx.eng = eng
    T = TIR(eng)
    x = ctx.sym_int("x", "i128"); y = ctx.sym_int("y", "i128")
    eng.assume(z3.And(x >= 1, x < (1 << 64), y >= 1, y < (1 << 64)))
    pol = T.bytes([4] * 28); nm = T.bytes([0x41])
    o = T.st("Output", address=T.address([0x60] + [2] * 28), datum=T.none(), amount=T.assets([T.asset(pol, nm, T.num(x)), T.asset(pol, nm, T.num(y))]), optional=False)
    net = eng.mk_variant("NetworkId", "Testnet", [])
    try:
        r = models.deref(eng.call_fn(eng.find(short="compile_output_block"), [ref_to_value(o), net]))
    except Panic as p:
        eng.stats.panic_paths += 1
        ctx.violation("compile_output_block panicked: %s" % p.kind, site=p.site, shape="output token aggregation: %s" % p.kind)
        return
    if r.variant != "Ok":
        ctx.require(x + y >= (1 << 64), "a representable token total is accepted", shape="representable token total rejected")
        return
    from harness.c01 import decode_output
    d = decode_output(eng, r.fields[0])
    got = d["assets"].get((tuple([4] * 28), (0x41,)))
    ctx.require(got is not None, "the token is present in the output", shape="token total dropped")
    if got is not None:
        ctx.require(z3.ZeroExt(64, eng.to_bv(got, 64)) == x + y, "the output's token amount is the exact sum of its entries", shape="token total wrapped")


def h_aggregate_mint(ctx, tier, seed):
    """two mint blocks of one asset class with amounts x, y in [1, 2^63): the mint field carries
    x + y or compilation fails — the entry is never dropped"""
    import mharness
    eng = mharness.engine_for(["tx3-cardano", "tx3-tir"])
    ctx.eng = eng
    T = TIR(eng)
    x = ctx.sym_int("x", "i128"); y = ctx.sym_int("y", "i128")
    eng.assume(z3.And(x >= 1, x < (1 << 63), y >= 1, y < (1 << 63)))
    kind = eng.choose(3, "two mints / two burns / a mint and a burn")
    burn = kind == 1
    blk = lambda a: T.st("Mint", amount=T.assets([T.asset(T.bytes([4] * 28), T.bytes([0x41]), T.num(a))]), redeemer=T.none())
    if kind == 2:
        tx = mk_tx(T, mints=[blk(x)], burns=[blk(y)])
        want = x - y
        fits = z3.BoolVal(True)
    else:
        tx = mk_tx(T, **{("burns" if burn else "mints"): [blk(x), blk(y)]})
        want = -(x + y) if burn else (x + y)
        fits = (x + y <= (1 << 63)) if burn else (x + y < (1 << 63))
    try:
        r = models.deref(eng.call_fn(eng.find(short="compile_mint_block"), [ref_to_value(tx)]))
    except Panic as p:
        eng.stats.panic_paths += 1
        ctx.violation("compile_mint_block panicked: %s" % p.kind, site=p.site, shape="mint aggregation: %s" % p.kind)
        return
    if r.variant != "Ok":
        ctx.require(z3.Not(fits), "a representable mint total is accepted", shape="representable mint total rejected")
        return
    o = models.deref(r.fields[0])
    amt = None
    if o.variant == "Some":
        for k, p, v in models.deref(o.fields[0]).entries:
            for a, ap, q in models.deref(v).entries:
                if p is not False and ap is not False:
                    q = models.deref(q)
                    amt = q.fields[0] if isinstance(q, Agg) else q
    if amt is None:
        ctx.require(want == 0, "the asset is left out of the mint field only when mint and burn cancel", shape="mint total dropped")
    else:
        ctx.require(z3.And(want != 0, z3.SignExt(64, eng.to_bv(amt, 64)) == want), "the mint quantity is the exact net total (mint - burn)", shape="mint total wrapped")


HARNESSES += [
    _h("c02m_aggregate_token", h_aggregate_token, "output naming one token twice, amounts in [1, 2^64)", crates=["tx3-cardano", "tx3-tir"]),
    _h("c02m_aggregate_mint", h_aggregate_mint, "two mint blocks, two burn blocks, or a mint and a burn block of one asset class, amounts in [1, 2^63)", crates=["tx3-cardano", "tx3-tir"]),
]


def h_resolver_balance(ctx, tier, seed):
    """ledger balance through the resolver: a template that spends two blocks of one party and pays
    out `a + b - fees` balances only if the two blocks are bound to *different* UTxOs (the output is
    computed from both bindings, the body consumes each UTxO once).  Runs the C04 harness
    (real resolve + compile_inputs from MIR) with its disjointness obligations."""
    import mharness
    from harness import c04
    eng = mharness.engine_for(c04.CRATES)
    ctx.eng = eng
    c04.h_blocks(ctx, tier, seed, n=2, shape="two_same")


HARNESSES.append(_h("c02m_resolver_balance", h_resolver_balance, "2 input blocks of one party over a store of 2 UTxOs (amounts symbolic): a UTxO is consumed once and counted once", crates=["tx3-resolver", "tx3-tir", "tx3-cardano"], max_paths=400000, time_limit=1200))
