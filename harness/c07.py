"""C07 — staged application is order-independent and reduction is idempotent.

Real MIR of tx3-tir (apply_args / apply_inputs / apply_fees / reduce, Node::apply with the
blanket Visitor impl) and of tx3-cardano's Compiler::reduce_op for the compiler-evaluated
built-ins.  A schedule is a permutation of the stages {args, inputs, fees, compiler-ops} in
which the compiler stage comes after the stage that supplies its operands, plus a subset of
positions at which `reduce` is interleaved; every schedule must give the same reduced template
as the reference schedule, for all argument / UTxO / fee values."""
import itertools
import z3
from values import *
import models
from harness.hutil import *
from harness.c06 import leaf, fees_leaf, query, input_leaf, ada, builtin, coerce, compiler_op, out, inp, walk_unresolved

CRATES = ["tx3-tir", "tx3-cardano"]
ASSUMPTIONS = ["C07: 8 templates (asset arithmetic over an input and fees, time/slot built-ins on a parameter, parameterised asset name under +, datum of an input without datum under -, indexed list, script address, nested query); schedules = the 12 stage orders with args before compiler-ops x 16 reduce placements; min_utxo (depends on the previous body) excluded"]

STAGES = ("args", "inputs", "fees", "compiler")
ORDERS = [p for p in itertools.permutations(STAGES) if p.index("args") < p.index("compiler") and p.index("inputs") < p.index("compiler") or False]
ORDERS = [p for p in itertools.permutations(STAGES) if p.index("args") < p.index("compiler")]
REFERENCE = (("args", "inputs", "fees", "compiler"), (1, 1, 1, 1))


def bytes_leaf(T, name):
    return T.v("Expression", "EvalParam", BoxV(T.v("Param", "ExpectValue", StrM(name, True), T.v("Type", "Bytes"))))


def templates(T):
    P = lambda: leaf(T, "p")
    Q = lambda: leaf(T, "q")
    pol = T.bytes([7] * 28)
    t = {}
    t["asset_math"] = mk_tx(T, inputs=[inp(T)], outputs=[out(T, amount=builtin(T, "Sub", builtin(T, "Sub", coerce(T, "IntoAssets", input_leaf(T, "src")), ada(T, P())), fees_leaf(T)),
                                                              datum=builtin(T, "Add", P(), T.num(1)))])
    t["time_slot"] = mk_tx(T, validity=some(T.st("Validity", since=compiler_op(T, "ComputeTipSlot"), until=compiler_op(T, "ComputeTimeToSlot", P()))),
                           outputs=[out(T, datum=compiler_op(T, "ComputeSlotToTime", builtin(T, "Add", P(), T.num(10))))])
    t["asset_name_param"] = mk_tx(T, mints=[T.st("Mint", amount=builtin(T, "Add", T.assets([T.asset(pol, bytes_leaf(T, "token"), T.num(1))]), T.assets([T.asset(pol, T.bytes([0x41]), Q())])), redeemer=T.none())])
    t["asset_name_const_operand"] = mk_tx(T, mints=[T.st("Mint", amount=builtin(T, "Sub", builtin(T, "Add", T.assets([T.asset(pol, bytes_leaf(T, "token"), T.num(3))]), T.assets([T.asset(pol, T.bytes([0x41]), T.num(5))])), T.assets([T.asset(T.none(), bytes_leaf(T, "token"), T.num(1))])), redeemer=T.none())])
    t["datumless_input"] = mk_tx(T, inputs=[inp(T, "vault")], outputs=[out(T, datum=builtin(T, "Sub", coerce(T, "IntoDatum", input_leaf(T, "vault")), P()))])
    t["indexed_list"] = mk_tx(T, outputs=[out(T, datum=builtin(T, "Property", T.list([P(), T.num(2), builtin(T, "Negate", Q())]), T.num(2)))])
    t["script_address"] = mk_tx(T, outputs=[out(T, address=compiler_op(T, "BuildScriptAddress", bytes_leaf(T, "token")), amount=builtin(T, "Add", ada(T, P()), fees_leaf(T)))])
    t["nested_query"] = mk_tx(T, inputs=[inp(T, utxos=input_leaf(T, "src", query(T, min_amount=builtin(T, "Add", ada(T, P()), fees_leaf(T)))))],
                              outputs=[out(T, amount=builtin(T, "Sub", coerce(T, "IntoAssets", input_leaf(T, "src")), fees_leaf(T)))])
    return t


def compiler_value(eng):
    q, d = eng.tdef("Compiler", "struct")
    pq, pd = eng.tdef("PParams", "struct")
    cq, cd = eng.tdef("ChainPoint", "struct", hint="tx3_cardano")
    pp = Agg(pq, None, 0, [{"network": eng.mk_variant("NetworkId", "Testnet", []), "min_fee_coefficient": 44, "min_fee_constant": 155381,
                            "coins_per_utxo_byte": 4310, "cost_models": MapM("HashMap")}[f] for f in pd[2]])
    cur = Agg(cq, None, 0, [{"slot": 1000, "hash": VecM([]), "timestamp": 5000000}[f] for f in cd[2]])
    cfg = Agg("Config", None, 0, [none()])
    # through the real constructor, so that every field (also one a later version adds) gets its initial value
    try:
        f = eng.find(short="Compiler::new")
        return models.deref(eng.call_fn(f, [pp, cfg, cur]))
    except Unmodelled:
        known = {"pparams": pp, "config": cfg, "latest_tx_body": none(), "cursor": cur}
        return Agg(q, None, 0, [known.get(f, Opaque("Compiler." + f)) for f in d[2]])


def canon(eng, v):
    """canonical form for comparison: asset lists as sorted multisets"""
    v = models.deref(v)
    if isinstance(v, BoxV):
        return BoxV(canon(eng, v.v))
    if isinstance(v, Agg):
        if v.ty == "Expression" and v.variant == "Assets":
            items = [canon(eng, x) for x in models.deref(v.fields[0]).items]
            try:
                items.sort(key=lambda a: (repr(a.fields[0]), repr(a.fields[1])))
            except Exception:
                pass
            return Agg(v.ty, v.variant, v.vidx, [VecM(items)])
        return Agg(v.ty, v.variant, v.vidx, [canon(eng, f) for f in v.fields])
    if isinstance(v, VecM):
        return VecM([canon(eng, x) for x in v.items], v.kind)
    if isinstance(v, MapM) and all(p is True for _, p, _ in v.entries):
        # sets of UTxOs: identity is the reference; compare as a list sorted by it
        ents = sorted(v.entries, key=lambda e: repr(models.deref(e[0]).fields[0]) if isinstance(models.deref(e[0]), Agg) and models.deref(e[0]).fields else repr(e[0]))
        return VecM([tup(canon(eng, k), canon(eng, x)) for k, _, x in ents])
    return v


def run_schedule(eng, tx, order, mask, args, inputs, fee, comp):
    """-> ('ok', final) | ('err', stage)"""
    cur = models.vclone(eng, tx)
    red = eng.fns["reduce::reduce"]
    node_apply = eng.find(trait="Node", self_ty="Tx", method="apply")
    for st, m in zip(order, mask):
        if st == "args":
            r = eng.call_fn(eng.fns["apply_args"], [cur, ref_to_value(args)])
        elif st == "inputs":
            r = eng.call_fn(eng.fns["apply_inputs"], [cur, ref_to_value(inputs)])
        elif st == "fees":
            r = eng.call_fn(eng.fns["apply_fees"], [cur, fee])
        else:
            r = eng.call_fn(node_apply, [cur, ref_to_value(comp)])
        r = models.deref(r)
        if r.variant != "Ok":
            return ("err", st)
        cur = r.fields[0]
        if m:
            r = models.deref(eng.call_fn(red, [cur]))
            if r.variant != "Ok":
                return ("err", "reduce after " + st)
            cur = r.fields[0]
    r = models.deref(eng.call_fn(red, [cur]))
    if r.variant != "Ok":
        return ("err", "final reduce")
    return ("ok", r.fields[0])


def h_schedules(ctx, tier, seed, tname):
    eng = ctx.eng; T = TIR(eng)
    tx = templates(T)[tname]
    orders = list(ORDERS)
    masks = list(itertools.product((0, 1), repeat=4))
    if tier == "quick":
        # a seeded sample of stage orders and reduce placements (all 12 x 16 in the thorough tier);
        # the resolver's own order and the two placements around it are always included
        import random
        rnd = random.Random(seed * 7919 + sum(map(ord, tname)))
        orders = sorted(set(rnd.sample(orders, 4) + [("args", "fees", "compiler", "inputs"), ("inputs", "fees", "args", "compiler")]))
        masks = sorted(set(rnd.sample(masks, 2) + [(0, 0, 0, 0), (1, 0, 0, 0), (0, 0, 1, 0)]))
    order = orders[eng.choose(len(orders), "stage order")]
    mask = masks[eng.choose(len(masks), "reduce placement")]
    p = ctx.sym_int("p", "i128"); q = ctx.sym_int("q", "i128")
    eng.assume(z3.And(p >= 0, p < (1 << 40), q >= 0, q < (1 << 40)))
    lov = ctx.sym_amount("utxo.lovelace", 40)
    fee = ctx.sym_int("fee", "u64")
    eng.assume(z3.ULT(fee, 1 << 32))
    has_datum = eng.choose(2, "input utxo has a datum") == 1
    args = MapM("BTreeMap", [[StrM("p", True), True, T.v("ArgValue", "Int", p)], [StrM("q", True), True, T.v("ArgValue", "Int", q)],
                             [StrM("token", True), True, T.v("ArgValue", "Bytes", VecM([0x54] * 28))]])

    def utxo(tag):
        return T.st("Utxo", ref=utxo_ref(T, [tag] * 32, 0), address=VecM([0x60] + [1] * 28),
                    assets=Agg("CanonicalAssets", None, 0, [MapM("HashMap", [[cls_naked(), True, lov]])]), datum=some(T.num(77)) if has_datum else none(), script=none())
    inputs = MapM("BTreeMap", [[StrM("src", True), True, MapM("HashSet", [[utxo(0xA1), True, unit()]])], [StrM("vault", True), True, MapM("HashSet", [[utxo(0xA2), True, unit()]])]])
    comp = compiler_value(eng)
    try:
        ref = run_schedule(eng, tx, REFERENCE[0], REFERENCE[1], args, inputs, fee, comp)
        got = run_schedule(eng, tx, order, mask, args, inputs, fee, comp)
    except Panic as pn:
        eng.stats.panic_paths += 1
        if pn.kind == "overflow":
            return
        ctx.violation("[%s] a schedule panicked: %s" % (tname, pn.kind), site=pn.site, shape="schedule panics")
        return
    label = "%s | %s reduce@%s" % (tname, ">".join(order), "".join(map(str, mask)))
    if ref[0] == "err":
        ctx.require(got[0] == "err", "[%s] a template the reference schedule rejects is rejected by every schedule" % label, shape="schedules disagree on failure (%s)" % tname, site="c07:" + tname)
        return
    ctx.require(got[0] == "ok", "[%s] the schedule succeeds like the reference schedule (failed at: %s)" % (label, got[1] if got[0] == "err" else ""), shape="schedule fails where the reference order succeeds (%s)" % tname, site="c07:" + tname)
    if got[0] != "ok":
        return
    same = models.veq(eng, canon(eng, ref[1]), canon(eng, got[1]))
    ctx.require(same, "[%s] same fully reduced template as the reference schedule" % label, shape="schedules give different reduced templates (%s)" % tname, site="c07:" + tname)
    # idempotence
    again = models.deref(eng.call_fn(eng.fns["reduce::reduce"], [models.vclone(eng, got[1])]))
    ctx.require(again.variant == "Ok", "[%s] reducing a reduced template succeeds" % label)
    if again.variant == "Ok":
        ctx.require(models.veq(eng, canon(eng, again.fields[0]), canon(eng, got[1])), "[%s] reduce is idempotent" % label, shape="reduce not idempotent (%s)" % tname, site="c07:" + tname)
    left = []
    walk_unresolved(got[1], left)
    ctx.require(not left, "[%s] nothing unresolved remains" % label)


def _h(name, fn, bounds, tier="quick", **kw):
    d = dict(name=name, fn=fn, crates=CRATES, bounds=bounds, tier=tier)
    d.update(kw)
    return d


TNAMES = ["asset_math", "time_slot", "asset_name_param", "asset_name_const_operand", "datumless_input", "indexed_list", "script_address", "nested_query"]
HARNESSES = [_h("c07_" + t, (lambda t: lambda ctx, tier, seed: h_schedules(ctx, tier, seed, t))(t),
                "template %s; stage orders with args before compiler-ops x reduce placements (seeded sample of <= 6 x <= 5 in quick, all 12 x 16 in thorough); p, q < 2^40, fee < 2^32, lovelace < 2^40 symbolic; input with/without datum" % t,
                max_paths=100000, time_limit=1500) for t in TNAMES]
