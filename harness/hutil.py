"""helpers shared by the mirsym harnesses"""
import z3
from values import *
import models

INT128_MIN = -(1 << 127)

# ---- asset-class universe (concrete, pairwise distinct keys; presence and amounts symbolic)
N1 = [0xAA]
N2 = [0xBB, 0xCC]
P1 = [1] * 28
P2 = [2] * 28


def bytes_v(bs):
    return VecM(list(bs))


def cls_naked():
    return Agg("AssetClass", "Naked", 0, [])


def cls_named(n):
    return Agg("AssetClass", "Named", 1, [bytes_v(n)])


def cls_defined(p, n):
    return Agg("AssetClass", "Defined", 2, [bytes_v(p), bytes_v(n)])


def universe(k=4):
    u = [("naked", cls_naked), ("named_n1", lambda: cls_named(N1)), ("def_p1n1", lambda: cls_defined(P1, N1)),
         ("def_p2n1", lambda: cls_defined(P2, N1)), ("def_p1n2", lambda: cls_defined(P1, N2))]
    return u[:k]


def sym_assets(ctx, name, k=4, nonneg=False, canonical=False, max_bits=None):
    """CanonicalAssets over the universe with symbolic presence and symbolic i128 amounts"""
    entries = []
    for cname, mk in universe(k):
        p = ctx.sym_bool("%s.%s.present" % (name, cname))
        a = ctx.sym_int("%s.%s.amount" % (name, cname), "i128")
        if nonneg:
            ctx.eng.assume(z3.Or(z3.Not(p), a >= 0))
        if canonical:
            ctx.eng.assume(z3.Or(z3.Not(p), a != 0))
        if max_bits:
            ctx.eng.assume(z3.Or(z3.Not(p), z3.And(a >= -(1 << max_bits), a <= (1 << max_bits))))
        entries.append([mk(), p, a])
    return Agg("CanonicalAssets", None, 0, [MapM("HashMap", entries)])


def amounts(ctx, assets, k=4):
    """spec view: per-class amount with absent == 0 (as 128-bit terms); also checks that the
    value holds no class outside the universe"""
    m = models.deref(assets).fields[0]
    out = {}
    extra = []
    for cname, mk in universe(k):
        out[cname] = z3.BitVecVal(0, 128)
    for key, p, v in m.entries:
        hit = None
        for cname, mk in universe(k):
            if models.veq(ctx.eng, key, mk()) is True:
                hit = cname
        term = z3.If(p, ctx.eng.to_bv(v, 128), z3.BitVecVal(0, 128)) if p is not True else ctx.eng.to_bv(v, 128)
        if p is False:
            continue
        if hit is None:
            extra.append((key, p, v))
        else:
            out[hit] = out[hit] + term
    return out, extra


def entries_by_class(ctx, assets, k=4):
    m = models.deref(assets).fields[0]
    out = {}
    for key, p, v in m.entries:
        for cname, mk in universe(k):
            if models.veq(ctx.eng, key, mk()) is True:
                out.setdefault(cname, []).append((p, v))
    return out


def no_signed_overflow_add(a, b):
    return z3.And(z3.BVAddNoOverflow(a, b, True), z3.BVAddNoUnderflow(a, b))


def no_signed_overflow_sub(a, b):
    return z3.And(z3.BVSubNoOverflow(a, b), z3.BVSubNoUnderflow(a, b, True))


# ---- TIR expression builders (variant indices come from the repository's source)
class TIR:
    def __init__(s, eng):
        s.eng = eng

    def v(s, ty, variant, *fields):
        r = s.eng.mk_variant(ty, variant, list(fields))
        if r is None:
            raise Unmodelled("no variant %s::%s in the sources" % (ty, variant))
        return r

    def st(s, ty, **fields):
        q, d = s.eng.tdef(ty, "struct")
        if d is None:
            raise Unmodelled("no struct %s in the sources" % ty)
        fields = {k.rstrip("_"): v for k, v in fields.items()}
        missing = [f for f in d[2] if f not in fields]
        if missing or len(fields) != len(d[2]):
            raise Unmodelled("struct %s fields %s given %s" % (ty, d[2], list(fields)))
        return Agg(q, None, 0, [fields[f] for f in d[2]])

    def none(s):
        return s.v("Expression", "None")

    def num(s, x):
        return s.v("Expression", "Number", x)

    def boolean(s, b):
        return s.v("Expression", "Bool", b)

    def bytes(s, bs):
        return s.v("Expression", "Bytes", VecM(list(bs)))

    def string(s, t):
        return s.v("Expression", "String", StrM(t, True))

    def address(s, bs):
        return s.v("Expression", "Address", VecM(list(bs)))

    def hash(s, bs):
        return s.v("Expression", "Hash", VecM(list(bs)))

    def list(s, xs):
        return s.v("Expression", "List", VecM(list(xs)))

    def map(s, kvs):
        return s.v("Expression", "Map", VecM([tup(k, v) for k, v in kvs]))

    def tuple(s, a, b):
        return s.v("Expression", "Tuple", BoxV(tup(a, b)))

    def struct(s, constructor, fields):
        return s.v("Expression", "Struct", s.st("StructExpr", constructor=constructor, fields=VecM(list(fields))))

    def assets(s, xs):
        return s.v("Expression", "Assets", VecM(list(xs)))

    def asset(s, policy, name, amount):
        return s.st("AssetExpr", policy=policy, asset_name=name, amount=amount)


def expr_num(v):
    """-> the i128 inside Expression::Number, else None"""
    v = models.deref(v)
    if isinstance(v, Agg) and v.ty == "Expression" and v.variant == "Number":
        return v.fields[0]
    return None


def mk_tx(T, **over):
    """tir::Tx with empty defaults"""
    d = dict(fees=T.num(0), references=VecM([]), inputs=VecM([]), outputs=VecM([]), validity=none(), mints=VecM([]),
             burns=VecM([]), adhoc=VecM([]), collateral=VecM([]), signers=none(), metadata=VecM([]))
    for k, v in over.items():
        d[k] = VecM(v) if isinstance(v, list) else v
    return T.st("Tx", **d)


def utxo_ref(T, txid, index):
    return T.st("UtxoRef", txid=VecM(list(txid)), index=index)


def lex_lt(eng, a, b):
    """strict lexicographic order of two equal-length byte lists (symbolic bytes allowed)"""
    res = False
    for x, y in reversed(list(zip(a, b))):
        X, Y = eng.to_bv(x, 8), eng.to_bv(y, 8)
        lt = z3.ULT(X, Y) if (is_sym(x) or is_sym(y)) else (x < y)
        eq = (X == Y) if (is_sym(x) or is_sym(y)) else (x == y)
        res = b_or(lt, b_and(eq, res))
    return res


def bytes_eq(eng, a, b):
    return b_and(*[(eng.to_bv(x, 8) == eng.to_bv(y, 8)) if (is_sym(x) or is_sym(y)) else (x == y) for x, y in zip(a, b)])


def z3b(x):
    return z3.BoolVal(x) if isinstance(x, bool) else x
