"""helpers shared by the mirsym harnesses"""
import z3
from values import *
import models

INT128_MIN = -(1 << 127)

# ---- asset-class universe (concrete, pairwise distinct keys; presence and amounts symbolic)
N1 = [0xAA]
N2 = [0xBB, 0xCC]
P1 = [1] * 28
P2 = [2] * 28


def bytes_v(bs):
    return VecM(list(bs))


def cls_naked():
    return Agg("AssetClass", "Naked", 0, [])


def cls_named(n):
    return Agg("AssetClass", "Named", 1, [bytes_v(n)])


def cls_defined(p, n):
    return Agg("AssetClass", "Defined", 2, [bytes_v(p), bytes_v(n)])


def universe(k=4):
    u = [("naked", cls_naked), ("named_n1", lambda: cls_named(N1)), ("def_p1n1", lambda: cls_defined(P1, N1)),
         ("def_p2n1", lambda: cls_defined(P2, N1)), ("def_p1n2", lambda: cls_defined(P1, N2))]
    return u[:k]


def sym_assets(ctx, name, k=4, nonneg=False, canonical=False, max_bits=None):
    """CanonicalAssets over the universe with symbolic presence and symbolic i128 amounts"""
    entries = []
    for cname, mk in universe(k):
        p = ctx.sym_bool("%s.%s.present" % (name, cname))
        a = ctx.sym_int("%s.%s.amount" % (name, cname), "i128")
        if nonneg:
            ctx.eng.assume(z3.Or(z3.Not(p), a >= 0))
        if canonical:
            ctx.eng.assume(z3.Or(z3.Not(p), a != 0))
        if max_bits:
            ctx.eng.assume(z3.Or(z3.Not(p), z3.And(a >= -(1 << max_bits), a <= (1 << max_bits))))
        entries.append([mk(), p, a])
    return Agg("CanonicalAssets", None, 0, [MapM("HashMap", entries)])


def amounts(ctx, assets, k=4):
    """spec view: per-class amount with absent == 0 (as 128-bit terms); also checks that the
    value holds no class outside the universe"""
    m = models.deref(assets).fields[0]
    out = {}
    extra = []
    for cname, mk in universe(k):
        out[cname] = z3.BitVecVal(0, 128)
    for key, p, v in m.entries:
        hit = None
        for cname, mk in universe(k):
            if models.veq(ctx.eng, key, mk()) is True:
                hit = cname
        term = z3.If(p, ctx.eng.to_bv(v, 128), z3.BitVecVal(0, 128)) if p is not True else ctx.eng.to_bv(v, 128)
        if p is False:
            continue
        if hit is None:
            extra.append((key, p, v))
        else:
            out[hit] = out[hit] + term
    return out, extra


def entries_by_class(ctx, assets, k=4):
    m = models.deref(assets).fields[0]
    out = {}
    for key, p, v in m.entries:
        for cname, mk in universe(k):
            if models.veq(ctx.eng, key, mk()) is True:
                out.setdefault(cname, []).append((p, v))
    return out


def no_signed_overflow_add(a, b):
    return z3.And(z3.BVAddNoOverflow(a, b, True), z3.BVAddNoUnderflow(a, b))


def no_signed_overflow_sub(a, b):
    return z3.And(z3.BVSubNoOverflow(a, b), z3.BVSubNoUnderflow(a, b, True))
