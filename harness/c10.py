"""C10 — emitted transactions are well-formed, self-consistent and reproducible (structure
level: wiring of hashes, presence/absence of optional fields, no empty entries, independence
from hash-container iteration order).  CBOR encoders and digests are uninterpreted functions of
the value they are applied to, so byte-level claims are not made here."""
import z3
from values import *
import models
from harness.hutil import *
from harness.c06 import leaf, ada, out, inp
from harness.c07 import compiler_value
from harness.c08 import network, policy, mint_block

CRATES = ["tx3-cardano", "tx3-tir"]
ASSUMPTIONS = ["C10: minicbor::to_vec, compute_hash, ScriptData::hash are uninterpreted functions of their argument (two results are equal iff the arguments are structurally equal); hash-container iteration order is explored exhaustively where stated; acceptance by a decoder and digest values are outside"]


def field(eng, v, ty, name):
    q, d = eng.tdef(ty, "struct")
    return models.deref(models.deref(v).fields[d[2].index(name)])


def pparams(eng, mainnet, cost_models=(0, 1, 2)):
    pq, pd = eng.tdef("PParams", "struct")
    net = eng.mk_variant("NetworkId", "Mainnet" if mainnet else "Testnet", [])
    cm = MapM("HashMap", [[k, True, VecM([1, 2, 3])] for k in cost_models])
    return Agg(pq, None, 0, [{"network": net, "min_fee_coefficient": 44, "min_fee_constant": 155381, "coins_per_utxo_byte": 4310, "cost_models": cm}[f] for f in pd[2]])


def witness(T, name, version, script):
    return T.st("AdHocDirective", name=StrM(name, True), data=MapM("HashMap", [[StrM("version", True), True, T.num(version)], [StrM("script", True), True, T.bytes(script)]]))


def unkeep(v):
    v = models.deref(v)
    while isinstance(v, Agg) and v.ty == "KeepRaw":
        v = models.deref(v.fields[0])
    return v


def h_entry_point(ctx, tier, seed):
    """optional fields present exactly when their content is; hashes taken of what is emitted"""
    eng = ctx.eng; T = TIR(eng)
    mainnet = eng.choose(2, "network") == 1
    with_meta = eng.choose(3, "metadata entries")           # 0, 1, 2
    red_kind = eng.choose(4, "redeemer: none / on the mint / on a withdrawal / on a spent input")
    with_red = red_kind != 0
    scripts = eng.choose(3, "witness scripts")                # 0 none, 1 plutus v3, 2 native
    with_signer = eng.choose(2, "signers") == 1
    with_ref = eng.choose(2, "reference inputs") == 1
    meta = [T.st("Metadata", key=T.num(674 + i), value=T.string("m%d" % i)) for i in range(with_meta)]
    mints = [mint_block(T, policy(3), 5, T.num(9) if red_kind == 1 else T.none())]
    adhoc = []
    if red_kind == 2:
        adhoc.append(T.st("AdHocDirective", name=StrM("withdrawal", True), data=MapM("HashMap", [[StrM("credential", True), True, T.address([0xF0] + [7] * 28)], [StrM("amount", True), True, T.num(5)], [StrM("redeemer", True), True, T.num(9)]])))
    inputs = [T.st("Input", name=StrM("locked", True), utxos=T.v("Expression", "UtxoRefs", VecM([utxo_ref(T, [4] * 32, 0)])), redeemer=T.num(9))] if red_kind == 3 else []
    if scripts == 1:
        adhoc.append(witness(T, "plutus_witness", 3, [1, 2, 3]))
    if scripts == 2:
        adhoc.append(witness(T, "native_witness", 0, [0x82, 0x00, 0x80]))
    tx = mk_tx(T, outputs=[out(T)], metadata=meta, mints=mints, adhoc=adhoc, inputs=inputs,
               signers=some(T.st("Signers", signers=VecM([T.bytes([5] * 28)]))) if with_signer else none(),
               references=[T.v("Expression", "UtxoRefs", VecM([utxo_ref(T, [9] * 32, 1)]))] if with_ref else [])
    pp = pparams(eng, mainnet)
    try:
        r = models.deref(eng.call_fn(eng.find(short="entry_point"), [ref_to_value(tx), ref_to_value(pp)]))
    except Panic as p:
        eng.stats.panic_paths += 1
        ctx.violation("entry_point panicked: %s" % p.kind, site=p.site, shape="entry_point panics")
        return
    if r.variant != "Ok":
        # an undecodable native script is the only legitimate failure in this space
        ctx.require(scripts == 2, "a well-formed constant template compiles", shape="well-formed template rejected")
        return
    txv = models.deref(r.fields[0])
    names = eng.foreign_fields.get(txv.ty) or eng.tdef("Tx", "struct", hint="conway")[1][2]
    body = unkeep(txv.fields[names.index("transaction_body")])
    ws = unkeep(txv.fields[names.index("transaction_witness_set")])
    aux = models.deref(txv.fields[names.index("auxiliary_data")])
    bn = eng.tdef("TransactionBody", "struct")[1][2]
    g = lambda n: models.deref(body.fields[bn.index(n)])
    # network id
    nid = g("network_id")
    ctx.require(nid.variant == "Some" and models.deref(nid.fields[0]).variant == ("Mainnet" if mainnet else "Testnet"), "network id is the configured network", shape="network id mismatch")
    # auxiliary data <-> metadata
    ctx.require((aux.variant == "Some") == (with_meta > 0), "auxiliary data present exactly when there is metadata", shape="auxiliary data presence wrong")
    adh = g("auxiliary_data_hash")
    ctx.require((adh.variant == "Some") == (with_meta > 0), "auxiliary-data hash present exactly when metadata is", shape="auxiliary_data_hash presence wrong")
    if adh.variant == "Some" and aux.variant == "Some":
        h = models.deref(adh.fields[0])
        ctx.require(isinstance(h, Opaque) and models.veq(eng, h.args[0] if h.args else None, unkeep(aux.fields[0])) is True, "auxiliary-data hash is the digest of the auxiliary data that is emitted", shape="auxiliary_data_hash of something else")
    # script data hash <-> redeemers
    wn = eng.tdef("WitnessSet", "struct")[1][2]
    red = models.deref(ws.fields[wn.index("redeemer")])
    ctx.require((red.variant == "Some") == with_red, "redeemers are emitted exactly when the template has them", shape="redeemer presence wrong")
    sdh = g("script_data_hash")
    ctx.require((sdh.variant == "Some") == with_red, "script-data hash present exactly when redeemers are", shape="script_data_hash presence wrong")
    if sdh.variant == "Some":
        h = models.deref(sdh.fields[0])
        ok_ = isinstance(h, Opaque) and h.args and isinstance(h.args[0], Opaque) and models.veq(eng, h.args[0].args[0], ws) is True
        ctx.require(ok_, "script-data hash is computed from the witness set that is emitted", shape="script_data_hash of something else")
    # no empty set-like fields
    for f in ("certificates", "reference_inputs", "collateral", "required_signers", "withdrawals", "mint"):
        v = g(f)
        if v.variant == "Some":
            inner = models.deref(v.fields[0])
            n = None
            if isinstance(inner, MapM):
                n = [p for _, p, _ in inner.entries if p is not False]
                ctx.require(len(n) > 0, "%s is omitted rather than emitted empty" % f, shape="empty %s emitted" % f)
            elif isinstance(inner, Agg) and inner.fields and isinstance(models.deref(inner.fields[0]), VecM):
                ctx.require(len(models.deref(inner.fields[0]).items) > 0, "%s is omitted rather than emitted empty" % f, shape="empty %s emitted" % f)
    ctx.require((g("required_signers").variant == "Some") == with_signer, "required signers present exactly when the template has signers", shape="required_signers presence wrong")
    ctx.require((g("reference_inputs").variant == "Some") == with_ref, "reference inputs present exactly when the template has references", shape="reference_inputs presence wrong")
    for f in ("plutus_v1_script", "plutus_v2_script", "plutus_v3_script", "native_script"):
        v = models.deref(ws.fields[wn.index(f)])
        want = (f == "plutus_v3_script" and scripts == 1) or (f == "native_script" and scripts == 2)
        ctx.require((v.variant == "Some") == want, "witness field %s present exactly when the template carries such scripts" % f, shape="witness scripts presence wrong")


def h_mint_cancel(ctx, tier, seed):
    """mint x / burn y of one asset class: the body carries x - y, and when they cancel neither a
    zero quantity nor an empty policy entry nor an empty mint map"""
    eng = ctx.eng; T = TIR(eng)
    x = ctx.sym_int("mint", "i128"); y = ctx.sym_int("burn", "i128")
    eng.assume(z3.And(x >= 1, x < (1 << 62), y >= 1, y < (1 << 62)))
    other = eng.choose(2, "a second asset under the same policy") == 1
    mints = [mint_block(T, policy(3), x, T.none())]
    if other:
        mints.append(T.st("Mint", amount=T.assets([T.asset(T.bytes(policy(3)), T.bytes([0x42]), T.num(7))]), redeemer=T.none()))
    burns = [mint_block(T, policy(3), y, T.none())]
    tx = mk_tx(T, mints=mints, burns=burns)
    try:
        r = models.deref(eng.call_fn(eng.find(short="compile_mint_block"), [ref_to_value(tx)]))
    except Panic as p:
        eng.stats.panic_paths += 1
        ctx.violation("compile_mint_block panicked: %s" % p.kind, site=p.site, shape="compile_mint_block panics")
        return
    ctx.require(r.variant == "Ok", "mint and burn of representable amounts compile", shape="mint block rejected")
    if r.variant != "Ok":
        return
    o = models.deref(r.fields[0])
    if o.variant == "None":
        ctx.require(z3.And(x == y, not other), "the mint field is omitted only when nothing is minted or burned on balance", shape="mint field dropped")
        return
    m = models.deref(o.fields[0])
    pols = [(k, v) for k, p, v in m.entries if p is not False]
    ctx.require(len(pols) > 0, "the mint field is omitted rather than emitted empty", shape="empty mint map emitted")
    for k, v in pols:
        inner = models.deref(v)
        assets = [(a, q) for a, p, q in inner.entries if p is not False]
        ctx.require(len(assets) > 0, "a policy whose assets cancel is not emitted with an empty asset map", shape="policy with empty asset map emitted")
        for a, qv in assets:
            qv = models.deref(qv)
            amt = qv.fields[0] if isinstance(qv, Agg) else qv
            nm = models.deref(models.deref(a).fields[0]).items
            if nm == [0x41]:
                ctx.require(z3.And(x != y, eng.to_bv(amt, 64) == z3.Extract(63, 0, x - y)), "the net quantity is mint - burn and never zero", shape="wrong or zero net mint quantity")


def h_witness_order(ctx, tier, seed):
    """several plutus witnesses of one version: the emitted script list does not depend on hash
    iteration order (and keeps every script once)"""
    eng = ctx.eng; T = TIR(eng)
    scripts = [[1, 1], [2, 2, 2], [3]]
    adhoc = [witness(T, "plutus_witness", 3, s_) for s_ in scripts]
    tx = mk_tx(T, adhoc=adhoc, outputs=[out(T)])
    body = models.deref(eng.call_fn(eng.find(short="compile_tx_body"), [ref_to_value(tx), network(eng)]))
    ws = models.deref(eng.call_fn(eng.find(short="compile_witness_set"), [ref_to_value(tx), ref_to_value(body.fields[0]), network(eng)]))
    ctx.require(ws.variant == "Ok", "witness set compiles")
    if ws.variant != "Ok":
        return
    wn = eng.tdef("WitnessSet", "struct")[1][2]
    v3 = models.deref(models.deref(ws.fields[0]).fields[wn.index("plutus_v3_script")])
    ctx.require(v3.variant == "Some", "the scripts are emitted")
    if v3.variant != "Some":
        return
    inner = models.deref(models.deref(v3.fields[0]).fields[0])
    got = []
    for it in inner.items:
        it = models.deref(it)
        b = models.deref(it.fields[0]) if isinstance(it, Agg) else it
        while isinstance(b, Agg):
            b = models.deref(b.fields[0])
        got.append(list(b.items))
    ctx.require(got == scripts, "witness scripts are emitted once each, in source order, whatever the hash iteration order (got %s)" % got, shape="witness script order depends on hash iteration order or scripts lost")


def h_compile_wiring(ctx, tier, seed):
    """Compiler::compile: hash, payload and remembered body all come from one compiled transaction;
    the reported fee is the size fee of the returned payload"""
    eng = ctx.eng; T = TIR(eng)
    tx = mk_tx(T, outputs=[out(T)], fees=T.num(5))
    anytir = eng.mk_variant("AnyTir", "V1Beta0", [tx])
    comp = compiler_value(eng)
    cn = eng.tdef("Compiler", "struct")[1][2]
    extra = eng.choose(3, "extra_fees")
    margin = [200000, 0, 350000][extra]
    comp.fields[cn.index("config")] = Agg("Config", None, 0, [[none(), some(0), some(350000)][extra]])
    f = eng.find(trait="Compiler", self_ty="Compiler", method="compile")
    r = models.deref(eng.call_fn(f, [ref_to_value(comp), ref_to_value(anytir)]))
    ctx.require(r.variant == "Ok", "a constant template compiles")
    if r.variant != "Ok":
        return
    ct = models.deref(r.fields[0])
    names = eng.tdef("CompiledTx", "struct")[1][2]
    payload = models.deref(ct.fields[names.index("payload")])
    hash_ = models.deref(ct.fields[names.index("hash")])
    fee = ct.fields[names.index("fee")]
    ctx.require(isinstance(payload, Opaque) and payload.fn == "cbor", "payload is the encoding of the compiled transaction")
    txv = models.deref(payload.args[0])
    tnames = eng.foreign_fields.get(txv.ty) or eng.tdef("Tx", "struct", hint="conway")[1][2]
    body_in_payload = txv.fields[tnames.index("transaction_body")]
    hv = hash_
    while isinstance(hv, Opaque) and hv.fn != "compute_hash" and hv.args:
        hv = models.deref(hv.args[0])
    ctx.require(isinstance(hv, Opaque) and hv.fn == "compute_hash" and models.veq(eng, unkeep(hv.args[0]), unkeep(body_in_payload)) is True, "the reported hash is taken of the body that is serialised in the payload", shape="hash of a different body")
    latest = models.deref(comp.fields[cn.index("latest_tx_body")])
    ctx.require(latest.variant == "Some" and models.veq(eng, unkeep(latest.fields[0]), unkeep(body_in_payload)) is True, "the remembered body is the body of the returned transaction", shape="latest_tx_body is another body")
    n = eng.length_of(payload)
    want = z3.BitVecVal(44, 64) * eng.to_bv(n, 64) + 155381 + margin
    ctx.require(eng.to_bv(fee, 64) == want, "reported fee = coefficient * |payload| + constant + margin", shape="reported fee is not the size fee of the payload")


def _h(name, fn, bounds, tier="quick", **kw):
    d = dict(name=name, fn=fn, crates=CRATES, bounds=bounds, tier=tier)
    d.update(kw)
    return d


HARNESSES = [
    _h("c10_entry_point", h_entry_point, "network x metadata entries {0,1,2} x redeemer {none, mint, withdrawal, spent input} x witness scripts {none, plutus v3, native} x signers x references (288 templates)", max_paths=100000),
    _h("c10_mint_cancel", h_mint_cancel, "mint x / burn y of one class, x, y symbolic in [1, 2^62); with/without a second asset under the policy"),
    _h("c10_witness_order", h_witness_order, "3 plutus v3 witness directives; hash-container iteration order: all", map_order="all"),
    _h("c10_compile_wiring", h_compile_wiring, "Compiler::compile on a constant template; extra_fees in {None, Some(0), Some(350000)}; payload length symbolic (< 2^32)"),
]


# ---- no duplicates in set-like fields ------------------------------------------------------

_DUP_SEEN = {}


def h_duplicates(ctx, tier, seed):
    """the same signer / reference / metadata label written twice does not produce a duplicate
    entry in the corresponding set- or map-like field"""
    eng = ctx.eng; T = TIR(eng)
    which = eng.choose(4, "duplicated item")
    tx = mk_tx(T, outputs=[out(T)],
               signers=some(T.st("Signers", signers=VecM([T.bytes([5] * 28), T.bytes([6] * 28), T.bytes([5] * 28)]))) if which == 0 else none(),
               references=[T.v("Expression", "UtxoRefs", VecM([utxo_ref(T, [9] * 32, 1)])), T.v("Expression", "UtxoRefs", VecM([utxo_ref(T, [9] * 32, 1)]))] if which == 1 else [],
               metadata=[T.st("Metadata", key=T.num(674), value=T.string("a")), T.st("Metadata", key=T.num(674), value=T.string("b"))] if which == 2 else [],
               collateral=[T.st("Collateral", utxos=T.v("Expression", "UtxoRefs", VecM([utxo_ref(T, [8] * 32, 0), utxo_ref(T, [8] * 32, 0), utxo_ref(T, [8] * 32, 1)])))] if which == 3 else [])
    try:
        b = models.deref(eng.call_fn(eng.find(short="compile_tx_body"), [ref_to_value(tx), network(eng)]))
        aux = models.deref(eng.call_fn(eng.find(short="compile_auxiliary_data"), [ref_to_value(tx)]))
    except Panic as p:
        ctx.violation("panicked: %s" % p.kind, site=p.site)
        return
    ctx.require(b.variant == "Ok", "the template compiles")
    if b.variant != "Ok":
        return
    bn = eng.tdef("TransactionBody", "struct")[1][2]
    body = models.deref(b.fields[0])

    def items(f):
        v = models.deref(body.fields[bn.index(f)])
        if v.variant != "Some":
            return []
        inner = models.deref(v.fields[0])
        while isinstance(inner, Agg):
            inner = models.deref(inner.fields[0])
        return [repr(models.deref(x)) for x in inner.items]
    if which in (0, 1, 3):
        f_ = {0: "required_signers", 1: "reference_inputs", 3: "collateral"}[which]
        seen = _DUP_SEEN.setdefault((ctx.hname, which), items(f_))
        ctx.require(items(f_) == seen, "%s does not depend on hash iteration order (compiling twice gives the same list)" % f_, shape="%s order depends on hash iteration order" % f_)
    if which == 0:
        got = items("required_signers")
        ctx.require(len(got) == len(set(got)), "a signer named twice appears once in required_signers (got %d entries)" % len(got), shape="duplicate required signer")
        ctx.require(len(set(got)) == 2, "both distinct signers are present")
    elif which == 1:
        got = items("reference_inputs")
        ctx.require(len(got) == len(set(got)), "a reference given twice appears once in reference_inputs (got %d entries)" % len(got), shape="duplicate reference input")
    elif which == 3:
        got = items("collateral")
        ctx.require(len(got) == len(set(got)), "a collateral input given twice appears once (got %d entries)" % len(got), shape="duplicate collateral input")
        ctx.require(len(set(got)) == 2, "both distinct collateral inputs are present")
    else:
        ctx.require(aux.variant == "Ok" and models.deref(aux.fields[0]).variant == "Some", "metadata is emitted")


HARNESSES.append(_h("c10_duplicates", h_duplicates, "a signer, a reference input, a collateral input and a metadata label each written twice; every hash-container iteration order", map_order="all"))
