"""C15 — multi-asset values obey the algebra balance computations assume.

Real MIR of tx3_tir::model::assets::CanonicalAssets (and the AssetExpr conversions of
reduce/mod.rs) against pointwise specifications over a universe of 4 asset classes
{lovelace, Named(n), Defined(p,n), Defined(p',n)} with symbolic presence flags and symbolic
i128 amounts.  One call per harness."""
import z3
from values import *
import models
from harness.hutil import *

CRATES = ["tx3-tir"]
K = 4
ASSUMPTIONS = ["C15: asset classes are 4 concrete, pairwise distinct keys (names/policies are opaque byte strings; empty vs non-empty distinguished in the constructor harnesses); amounts are symbolic i128; overflow of an individual i128 addition is outside the property and is checked to be the *only* reason the real code panics"]


CLS_JSON = {"naked": "naked", "named_n1": [N1], "def_p1n1": [P1, N1], "def_p2n1": [P2, N1], "def_p1n2": [P1, N2]}


def _concrete(vals, name, k=K):
    """[[class json, amount string]] of the assets value `name` under the model valuation"""
    out = []
    for cname, _ in universe(k):
        if vals.get("%s.%s.present" % (name, cname)):
            out.append([CLS_JSON[cname], str(vals.get("%s.%s.amount" % (name, cname), 0))])
    return out


def _native_amounts(res):
    """native assets_json -> {display name: int}"""
    return {k: int(v) for k, v in res} if isinstance(res, list) else None


DISPLAY = {"naked": "naked", "named_n1": bytes(N1).hex(), "def_p1n1": bytes(P1).hex() + "." + bytes(N1).hex(), "def_p2n1": bytes(P2).hex() + "." + bytes(N1).hex(), "def_p1n2": bytes(P1).hex() + "." + bytes(N2).hex()}


def _amt(vals, name, cname):
    return int(vals.get("%s.%s.amount" % (name, cname), 0)) if vals.get("%s.%s.present" % (name, cname)) else 0


def replay_binop(op):
    """re-evaluates the pointwise specification on the *native* result for the model's inputs"""
    def rp(vals):
        import native
        a, b = _concrete(vals, "a"), _concrete(vals, "b")
        # the native side builds values with `+`, which prunes zero entries: replay only canonical inputs
        res = native.run([dict(cmd="assets", op=op, a=a, b=b)])[0]
        if isinstance(res, dict) and "panic" in res:
            return True
        got = _native_amounts(res)
        for cname, _ in universe(K):
            want = _amt(vals, "a", cname) + (_amt(vals, "b", cname) if op == "add" else -_amt(vals, "b", cname))
            if -(1 << 127) <= want < (1 << 127) and got.get(DISPLAY[cname], 0) != want:
                return True
        return False if all(int(x[1]) != 0 for x in a + b) else None
    return rp


def replay_pred(op, spec_py):
    def rp(vals):
        import native
        a, b = _concrete(vals, "a"), _concrete(vals, "b")
        res = native.run([dict(cmd="assets", op=op, a=a, b=b)])[0]
        if isinstance(res, dict):
            return True
        A = {c: _amt(vals, "a", c) for c, _ in universe(K)}
        B = {c: _amt(vals, "b", c) for c, _ in universe(K)}
        if res != spec_py(A, B):
            return True
        return False if all(int(x[1]) != 0 for x in a + b) else None
    return rp


def _find(eng, trait, method):
    return eng.find(trait=trait, self_ty="CanonicalAssets", method=method)


def _binop(ctx, trait, method, spec_op, ovf_free):
    eng = ctx.eng
    a = sym_assets(ctx, "a", K)
    b = sym_assets(ctx, "b", K)
    A, _ = amounts(ctx, a, K)
    B, _ = amounts(ctx, b, K)
    try:
        r = eng.call_fn(_find(eng, trait, method), [a, b])
    except Panic as p:
        eng.stats.panic_paths += 1
        if p.kind == "overflow":
            # allowed only if some per-class operation really overflows i128
            ctx.require(z3.Or(*[z3.Not(ovf_free(A[c], B[c])) for c in A]), "%s panics only on a genuine i128 overflow" % method)
        else:
            ctx.violation("%s panicked: %s" % (method, p.kind), site=p.site)
        return
    R, extra = amounts(ctx, r, K)
    ctx.require(len(extra) == 0, "%s introduces no foreign class" % method)
    for c in A:
        ctx.require(z3.Implies(ovf_free(A[c], B[c]), R[c] == spec_op(A[c], B[c])), "%s is pointwise on %s" % (method, c), replay=replay_binop(method))
    # canonical form: no entry with amount zero is left behind
    for c, es in entries_by_class(ctx, r, K).items():
        ctx.require(len(es) <= 1, "%s keeps one entry per class" % method)
        for p, v in es:
            ctx.require(z3.Implies(p if p is not True else z3.BoolVal(True), eng.to_bv(v, 128) != 0), "%s leaves no zero entry (%s)" % (method, c))


def h_add(ctx, tier, seed):
    _binop(ctx, "Add", "add", lambda x, y: x + y, no_signed_overflow_add)


def h_sub(ctx, tier, seed):
    _binop(ctx, "Sub", "sub", lambda x, y: x - y, no_signed_overflow_sub)


def h_neg(ctx, tier, seed):
    eng = ctx.eng
    a = sym_assets(ctx, "a", K)
    A, _ = amounts(ctx, a, K)
    try:
        r = eng.call_fn(_find(eng, "Neg", "neg"), [a])
    except Panic as p:
        eng.stats.panic_paths += 1
        if p.kind == "overflow":
            ctx.require(z3.Or(*[A[c] == z3.BitVecVal(INT128_MIN, 128) for c in A]), "neg panics only on i128::MIN")
        else:
            ctx.violation("neg panicked: %s" % p.kind, site=p.site)
        return
    R, extra = amounts(ctx, r, K)
    ctx.require(len(extra) == 0, "neg introduces no foreign class")
    for c in A:
        ctx.require(z3.Implies(A[c] != z3.BitVecVal(INT128_MIN, 128), R[c] == -A[c]), "neg is pointwise on %s" % c)


PY_SPECS = {
    "contains_total": lambda A, B: all(A[c] >= B[c] for c in A),
    "contains_some": lambda A, B: all(B[c] == 0 for c in A) or any(B[c] != 0 and A[c] > 0 for c in A),
    "is_empty": lambda A, B: all(A[c] == 0 for c in A),
    "is_empty_or_negative": lambda A, B: all(A[c] <= 0 for c in A),
    "is_only_naked": lambda A, B: all(A[c] == 0 for c in A if c != "naked"),
    "eq": lambda A, B: all(A[c] == B[c] for c in A),
}


def _pred(ctx, method, spec, nargs=2, nonneg=False, canonical=False):
    eng = ctx.eng
    a = sym_assets(ctx, "a", K, nonneg=nonneg, canonical=canonical)
    A, _ = amounts(ctx, a, K)
    args = [ref_to_value(a)]
    B = None
    if nargs == 2:
        b = sym_assets(ctx, "b", K, nonneg=nonneg, canonical=canonical)
        B, _ = amounts(ctx, b, K)
        args.append(ref_to_value(b))
    try:
        r = eng.call_fn(eng.find(short="CanonicalAssets::" + method), args)
    except Panic as p:
        eng.stats.panic_paths += 1
        ctx.violation("%s panicked: %s" % (method, p.kind), site=p.site)
        return
    want = spec(A, B)
    rp = replay_pred(method, PY_SPECS[method]) if method in PY_SPECS else None
    if isinstance(r, bool):
        ctx.require(want if r else z3.Not(want), "%s agrees with its specification (result %s)" % (method, r), replay=rp)
    else:
        ctx.require(r == want, "%s agrees with its specification" % method, replay=rp)


def h_contains_total(ctx, tier, seed):
    # component-wise >= on non-negative amounts
    _pred(ctx, "contains_total", lambda A, B: z3.And(*[A[c] >= B[c] for c in A]), nonneg=True)


def h_contains_some(ctx, tier, seed):
    # nothing requested, or some requested class is held in a positive amount
    _pred(ctx, "contains_some", lambda A, B: z3.Or(z3.And(*[B[c] == 0 for c in A]), z3.Or(*[z3.And(B[c] != 0, A[c] > 0) for c in A])), nonneg=True)


def h_is_empty(ctx, tier, seed):
    _pred(ctx, "is_empty", lambda A, B: z3.And(*[A[c] == 0 for c in A]), nargs=1)


def h_is_empty_or_negative(ctx, tier, seed):
    _pred(ctx, "is_empty_or_negative", lambda A, B: z3.And(*[A[c] <= 0 for c in A]), nargs=1)


def h_is_only_naked(ctx, tier, seed):
    _pred(ctx, "is_only_naked", lambda A, B: z3.And(*[A[c] == 0 for c in A if c != "naked"]), nargs=1, canonical=True)


def h_eq(ctx, tier, seed):
    """equality is semantic: a == b iff equal amounts per class (absent == 0)"""
    eng = ctx.eng
    a = sym_assets(ctx, "a", K)
    b = sym_assets(ctx, "b", K)
    A, _ = amounts(ctx, a, K)
    B, _ = amounts(ctx, b, K)
    f = eng.find(trait="PartialEq", self_ty="CanonicalAssets", method="eq")
    r = eng.call_fn(f, [ref_to_value(a), ref_to_value(b)])
    want = z3.And(*[A[c] == B[c] for c in A])
    rp = replay_pred("eq", PY_SPECS["eq"])
    if isinstance(r, bool):
        ctx.require(want if r else z3.Not(want), "equality is semantic (real result %s)" % r, shape="eq structural, not semantic", replay=rp)
    else:
        ctx.require(r == want, "equality is semantic", shape="eq structural, not semantic", replay=rp)


def _ctor(ctx, name, args, expect_class):
    """constructor puts `amount` into exactly `expect_class`, nothing anywhere else"""
    eng = ctx.eng
    x = ctx.sym_int("amount", "i128")
    r = eng.call_fn(eng.find(short="CanonicalAssets::" + name), args + [x])
    R, extra = amounts(ctx, r, 5)
    ctx.require(len(extra) == 0, "%s: no foreign class" % name)
    for c in R:
        ctx.require(R[c] == (x if c == expect_class else 0), "%s: amount lands in %s only (%s)" % (name, expect_class, c))


def sl(bs):
    v = bytes_v(bs)
    return SliceV(v, 0, len(bs))


def h_constructors(ctx, tier, seed):
    eng = ctx.eng
    which = eng.choose(12, "constructor case")
    if which == 0:
        _ctor(ctx, "from_naked_amount", [], "naked")
    elif which == 1:
        _ctor(ctx, "from_named_asset", [sl(N1)], "named_n1")
    elif which == 2:
        _ctor(ctx, "from_named_asset", [sl([])], "naked")
    elif which == 3:
        _ctor(ctx, "from_defined_asset", [sl(P1), sl(N1)], "def_p1n1")
    elif which == 4:
        _ctor(ctx, "from_defined_asset", [sl([]), sl(N1)], "named_n1")
    elif which == 5:
        _ctor(ctx, "from_defined_asset", [sl([]), sl([])], "naked")
    elif which == 6:
        _ctor(ctx, "from_asset", [some(sl(P2)), some(sl(N1))], "def_p2n1")
    elif which == 7:
        _ctor(ctx, "from_asset", [none(), some(sl(N1))], "named_n1")
    elif which == 8:
        _ctor(ctx, "from_asset", [none(), none()], "naked")
    elif which == 9:
        _ctor(ctx, "from_asset", [some(sl(P1)), some(sl(N2))], "def_p1n2")
    elif which == 10:
        _ctor(ctx, "from_class_and_amount", [cls_defined(P1, N1)], "def_p1n1")
    elif which == 11:
        _ctor(ctx, "from_class_and_amount", [cls_naked()], "naked")


def h_roundtrip_exprs(ctx, tier, seed):
    """CanonicalAssets -> Vec<AssetExpr> -> CanonicalAssets preserves every amount"""
    eng = ctx.eng
    a = sym_assets(ctx, "a", K)
    A, _ = amounts(ctx, a, K)
    to_exprs = eng.find(trait="From", self_ty="Vec", method="from", trait_generics="CanonicalAssets")
    from_exprs = eng.find(trait="From", self_ty="CanonicalAssets", method="from", trait_generics="Vec")
    try:
        v = eng.call_fn(to_exprs, [a])
        r = eng.call_fn(from_exprs, [v])
    except Panic as p:
        eng.stats.panic_paths += 1
        if p.kind == "overflow":
            return
        ctx.violation("AssetExpr round trip panicked: %s" % p.kind, site=p.site)
        return
    R, extra = amounts(ctx, r, K)
    ctx.require(len(extra) == 0, "round trip introduces no foreign class")
    for c in A:
        ctx.require(R[c] == A[c], "round trip preserves %s" % c)


def h_law_sub_add(ctx, tier, seed):
    """(a - b) + b == a per class (end-to-end sanity check of the group laws; 2 classes)"""
    eng = ctx.eng
    a = sym_assets(ctx, "a", 2, max_bits=100)
    b = sym_assets(ctx, "b", 2, max_bits=100)
    A, _ = amounts(ctx, a, 2)
    try:
        d = eng.call_fn(_find(eng, "Sub", "sub"), [a, models.vclone(eng, b)])
        r = eng.call_fn(_find(eng, "Add", "add"), [d, b])
    except Panic as p:
        eng.stats.panic_paths += 1
        ctx.violation("(a-b)+b panicked within +-2^100: %s" % p.kind, site=p.site)
        return
    R, extra = amounts(ctx, r, 2)
    for c in A:
        ctx.require(R[c] == A[c], "(a - b) + b == a on %s" % c)


def _h(name, fn, bounds, tier="quick", **kw):
    d = dict(name=name, fn=fn, crates=CRATES, bounds=bounds, tier=tier)
    d.update(kw)
    return d


B4 = "4 asset classes, presence symbolic, amounts: whole i128 range"
HARNESSES = [
    _h("c15_add", h_add, B4, max_paths=40000),
    _h("c15_sub", h_sub, B4, max_paths=40000),
    _h("c15_neg", h_neg, B4),
    _h("c15_contains_total", h_contains_total, B4 + " restricted to non-negative amounts"),
    _h("c15_contains_some", h_contains_some, B4 + " restricted to non-negative amounts"),
    _h("c15_is_empty", h_is_empty, B4),
    _h("c15_is_empty_or_negative", h_is_empty_or_negative, B4),
    _h("c15_is_only_naked", h_is_only_naked, B4 + ", no zero entries"),
    _h("c15_eq", h_eq, B4),
    _h("c15_constructors", h_constructors, "12 constructor cases (empty / non-empty policy and name), amount: whole i128 range"),
    _h("c15_roundtrip_exprs", h_roundtrip_exprs, B4),
    _h("c15_law_sub_add", h_law_sub_add, "2 asset classes, amounts within +-2^100", tier="thorough", max_paths=60000),
]
