"""C04 — a transaction never spends one UTxO through two input blocks.

Real MIR of tx3_resolver::inputs::resolve (async: find_queries, per-block narrowing and
selection with one InputSelector and its `ignore` set, apply_inputs) on templates with 2-3
overlapping input blocks, against the store model of C03; then the real
tx3_cardano compile_inputs on the resolved template."""
import z3
from values import *
import models
from harness.hutil import *
from harness import c03

CRATES = ["tx3-resolver", "tx3-tir", "tx3-cardano"]
ASSUMPTIONS = c03.ASSUMPTIONS + ["C04: 2-3 input blocks with overlapping queries (same party / ref into the party's UTxOs / collateral), block names concrete"]


def input_block(T, name, iq):
    p = T.v("Param", "ExpectInput", StrM(name, True), iq)
    return T.st("Input", name=StrM(name, True), utxos=T.v("Expression", "EvalParam", BoxV(p)), redeemer=T.none())


def collateral_block(T, name, iq):
    p = T.v("Param", "ExpectInput", StrM(name, True), iq)
    return T.st("Collateral", utxos=T.v("Expression", "EvalParam", BoxV(p)))


def bound_sets(ctx, store, tx):
    """per block name -> list of store indices bound to it (after resolve)"""
    eng = ctx.eng
    q, d = eng.tdef("Tx", "struct")
    out = {}
    for blk in models.deref(tx.fields[d[2].index("inputs")]).items:
        blk = models.deref(blk)
        iq, idd = eng.tdef("Input", "struct")
        name = models.deref(blk.fields[idd[2].index("name")]).text()
        u = models.deref(blk.fields[idd[2].index("utxos")])
        if isinstance(u, Agg) and u.variant == "EvalParam":
            # apply_inputs substitutes `Param::Set(UtxoSet(..))`; the later reduce unwraps it
            par = models.deref_box(u.fields[0])
            if par.variant == "Set":
                u = models.deref(par.fields[0])
        if not (isinstance(u, Agg) and u.variant == "UtxoSet"):
            out[name] = None
            continue
        idx = []
        for key, p, _ in models.deref(u.fields[0]).entries:
            if eng.decide(p):
                idx.append(store.index_of(eng, models.deref(key).fields[0]))
        out[name] = idx
    return out


def h_blocks(ctx, tier, seed, n=3, shape="two_same"):
    eng = ctx.eng
    if shape == "three":
        ctx.amount_bits = 8          # three blocks over three UTxOs: narrow amounts keep the sums cheap
    store = c03.Store(ctx, n)
    store.install(eng)
    T = store.T
    blocks, coll = [], []
    specs = []
    if shape == "two_same":
        specs = [("a", 1, 0, True, False, False), ("b", 1, 0, True, False, eng.choose(2, "second block many") == 1)]
    elif shape == "ref_and_addr":
        # one block pinned by ref to utxo0, one address block over the same party
        specs = [("locked", 0, 1, False, False, False), ("source", 1, 0, True, False, eng.choose(2, "many") == 1)]
    elif shape == "addr_and_ref":
        specs = [("a_source", 1, 0, True, False, eng.choose(2, "many") == 1), ("b_locked", 0, 1, False, False, False)]
    elif shape == "addr_then_token":
        # the later block's union (party's UTxOs) differs from its intersection (token holders)
        specs = [("a_fee", 1, 0, True, False, False), ("b_swap", 1, 0, True, True, True)]
    elif shape == "three":
        specs = [("a", 1, 0, True, False, False), ("b", 1, 0, True, True, True), ("c", 1, 0, True, False, False)]
    elif shape == "with_collateral":
        specs = [("a", 1, 0, True, False, False), ("b", 1, 0, True, False, False)]
    queries = {}
    for i, (name, ak, rk, ada, tok, many) in enumerate(specs):
        ctx_name = name
        # each block gets its own symbolic thresholds
        iq, qa, qt = c03.build_query(_Renamed(ctx, name), store, ak, rk, ada, tok, many, False)
        queries[name] = (ak, rk, qa, qt, many)
        blocks.append(input_block(T, name, iq))
    if shape == "with_collateral":
        iq, qa, qt = c03.build_query(_Renamed(ctx, "coll"), store, 1, 0, True, False, False, True)
        coll.append(collateral_block(T, "coll", iq))
    tx = mk_tx(T, inputs=blocks, collateral=coll)
    anytir = eng.mk_variant("AnyTir", "V1Beta0", [tx])
    st = Agg("Store", None, 0, [])
    try:
        r = models.deref(eng.block_on(eng.call_fn(eng.fns["resolve"], [anytir, ref_to_value(st)])))
    except Panic as p:
        eng.stats.panic_paths += 1
        if p.kind == "overflow":
            return
        ctx.violation("resolve panicked: %s" % p.kind, site=p.site, shape="resolve panics: %s" % p.kind)
        return
    if r.variant != "Ok":
        # resolution may fail — but never by reusing: nothing to check on this path except that a
        # failure is not spurious for the first block (covered by C03)
        ctx.require(True, "resolution failed instead of reusing a UTxO")
        return
    out_tx = models.deref(models.deref(r.fields[0]).fields[0])
    sets = bound_sets(ctx, store, out_tx)
    names = [s[0] for s in specs]
    for nm in names:
        ctx.require(sets.get(nm) is not None, "block %s is bound to a UTxO set" % nm, shape="block left unresolved after resolve")
    all_idx = []
    for nm in names:
        all_idx += sets.get(nm) or []
    ctx.require(None not in all_idx, "every bound UTxO is in the store")
    ctx.require(len(all_idx) == len(set(all_idx)), "the sets bound to distinct input blocks are pairwise disjoint", shape="one UTxO bound to two input blocks")
    for nm in names:
        ctx.require(len(sets.get(nm) or []) >= 1, "a resolved block is non-empty", shape="resolved block is empty")
    # flattened input list of the emitted transaction (after the reduce that follows resolution)
    ci = eng.find(short="compile_inputs")
    try:
        red = models.deref(eng.call_fn(eng.fns["reduce::reduce"], [out_tx]))
        if red.variant != "Ok":
            ctx.violation("reducing the resolved template failed", shape="reduce after resolve fails")
            return
        lst = models.deref(eng.call_fn(ci, [ref_to_value(red.fields[0])]))
    except Panic as p:
        ctx.violation("compile_inputs panicked: %s" % p.kind, site=p.site)
        return
    ctx.require(lst.variant == "Ok", "the resolved inputs compile")
    if lst.variant == "Ok":
        items = models.deref(lst.fields[0]).items
        ctx.require(len(items) == len(all_idx), "|tx.inputs| = sum of |selection_i|", shape="input list loses or duplicates a selected UTxO")
        keys = []
        tn = eng.tdef("TransactionInput", "struct")[1][2]
        for it in items:
            it = models.deref(it)
            h = models.deref(it.fields[tn.index("transaction_id")])
            keys.append((tuple(models.deref(h.fields[0]).items), it.fields[tn.index("index")]))
        ctx.require(len(set(keys)) == len(keys), "the input list contains every selected UTxO exactly once", shape="duplicate in the input list")


class _Renamed:
    """Ctx view that prefixes symbol names (one set of thresholds per block)"""

    def __init__(s, ctx, prefix):
        s.ctx, s.prefix = ctx, prefix
        s.eng, s.tier = ctx.eng, ctx.tier

    def sym_amount(s, name, bits=62):
        return s.ctx.sym_amount("%s.%s" % (s.prefix, name), bits)

    def sym_int(s, name, ty="i128"):
        return s.ctx.sym_int("%s.%s" % (s.prefix, name), ty)


def _mk(n, shape):
    return lambda ctx, tier, seed: h_blocks(ctx, tier, seed, n, shape)


def _h(name, fn, bounds, tier="quick", **kw):
    d = dict(name=name, fn=fn, crates=CRATES, bounds=bounds, tier=tier)
    d.update(kw)
    return d


S = "store of %d UTxOs (address tag, lovelace, token presence and amount symbolic); thresholds symbolic per block; every candidate order"
HARNESSES = [
    _h("c04_two_same_party", _mk(2, "two_same"), "2 blocks from the same party (second single/many); " + S % 2, max_paths=400000, time_limit=1200),
    _h("c04_ref_then_addr", _mk(2, "ref_and_addr"), "block pinned by ref + address block over the same UTxOs (ref block first in name order); " + S % 2, max_paths=400000, time_limit=1200),
    _h("c04_addr_then_ref", _mk(2, "addr_and_ref"), "address block first, ref block second; " + S % 2, max_paths=400000, time_limit=1200),
    _h("c04_addr_then_token", _mk(2, "addr_then_token"), "lovelace block, then a many block asking for lovelace + token over the same party (union != intersection); " + S % 2, max_paths=400000, time_limit=1200),
    _h("c04_with_collateral", _mk(2, "with_collateral"), "2 blocks + a collateral block over the same party; " + S % 2, max_paths=400000, time_limit=1200),
    _h("c04_three_blocks", _mk(3, "three"), "3 blocks from the same party, middle one many with a token threshold; amounts below 2^8; " + S % 3, max_paths=2000000, time_limit=6000, tier="thorough"),
]


# ---- the emitted input list, whatever else names the same UTxOs --------------------------------

def h_inputs_emitted(ctx, tier, seed):
    """a resolved template whose blocks hold {u1} and {u2, u3}; a reference input and / or a
    collateral input may name one of the selected UTxOs: the body's input list is {u1, u2, u3},
    each exactly once"""
    eng = ctx.eng; T = TIR(eng)
    ref_overlap = eng.choose(4, "reference input names: nothing selected / u1 / u2 / an unrelated UTxO")
    coll_overlap = eng.choose(2, "collateral names a selected UTxO") == 1

    def utxo_(tag, ix):
        return T.st("Utxo", ref=utxo_ref(T, [tag] * 32, ix), address=VecM([0x60] + [1] * 28),
                    assets=Agg("CanonicalAssets", None, 0, [MapM("HashMap", [[cls_naked(), True, 5000000]])]), datum=none(), script=none())
    sel = [(0x11, 0), (0x22, 1), (0x22, 0)]
    s1 = MapM("HashSet", [[utxo_(*sel[0]), True, unit()]])
    s2 = MapM("HashSet", [[utxo_(*sel[1]), True, unit()], [utxo_(*sel[2]), True, unit()]])
    inputs = [T.st("Input", name=StrM("a", True), utxos=T.v("Expression", "UtxoSet", s1), redeemer=T.none()),
              T.st("Input", name=StrM("b", True), utxos=T.v("Expression", "UtxoSet", s2), redeemer=T.none())]
    refs = {0: [], 1: [sel[0]], 2: [sel[1]], 3: [(0x77, 5)]}[ref_overlap]
    tx = mk_tx(T, inputs=inputs, references=[T.v("Expression", "UtxoRefs", VecM([utxo_ref(T, [t] * 32, i) for t, i in refs]))] if refs else [],
               collateral=[T.st("Collateral", utxos=T.v("Expression", "UtxoRefs", VecM([utxo_ref(T, [sel[2][0]] * 32, sel[2][1])])))] if coll_overlap else [])
    try:
        b = models.deref(eng.call_fn(eng.find(short="compile_tx_body"), [ref_to_value(tx), eng.mk_variant("NetworkId", "Testnet", [])]))
    except Panic as p:
        eng.stats.panic_paths += 1
        ctx.violation("compile_tx_body panicked: %s" % p.kind, site=p.site)
        return
    if b.variant != "Ok":
        # refusing a template whose reference input is also spent is acceptable; dropping is not
        ctx.require(ref_overlap in (1, 2) or coll_overlap, "a template with disjoint inputs and references compiles", shape="resolved template rejected")
        return
    bn = eng.tdef("TransactionBody", "struct")[1][2]
    ins = models.deref(models.deref(b.fields[0]).fields[bn.index("inputs")])
    while isinstance(ins, Agg):
        ins = models.deref(ins.fields[0])
    tn = eng.tdef("TransactionInput", "struct")[1][2]
    keys = []
    for it in ins.items:
        it = models.deref(it)
        h = models.deref(it.fields[tn.index("transaction_id")])
        keys.append((models.deref(h.fields[0]).items[0], it.fields[tn.index("index")]))
    ctx.require(sorted(keys) == sorted(sel), "|tx.inputs| = sum of |selection_i|: the body spends exactly the selected UTxOs, each once (got %s)" % (keys,), shape="input list loses or duplicates a selected UTxO")


HARNESSES.append(_h("c04_inputs_emitted", h_inputs_emitted, "blocks {u1}, {u2,u3}; reference input naming nothing / u1 / u2 / another UTxO; collateral naming u3 or absent"))


# ---- a wallet wider than the search window (MAX_SEARCH_SPACE_SIZE = 50) ---------------------------

class WideStore(c03.Store):
    """N concrete UTxOs at party A (10 + i lovelace, no tokens): the narrowed search space is as
    large as or larger than the window the selector looks at"""

    def __init__(s, ctx, n):
        s.n = n
        eng = ctx.eng
        T = TIR(eng)
        s.T = T
        s.refs = [utxo_ref(T, [0xC0 + (i % 32)] * 31 + [i], 0) for i in range(n)]
        s.addr = [c03.ADDR_A] * n
        s.bits = 16
        s.ada = [z3.BitVecVal(10 + i, 128) for i in range(n)]
        s.has_tok = [False] * n
        s.tok = [z3.BitVecVal(0, 128)] * n


def h_wide_wallet(ctx, tier, seed, n=51):
    """two single-UTxO blocks of the same party over a wallet of n >= 50 UTxOs: still disjoint"""
    eng = ctx.eng
    store = WideStore(ctx, n)
    store.install(eng)
    # candidate order: as the code produces it (one order; the permutation override of C03 is for small stores)
    for name in list(eng.overrides):
        if name.endswith("::sort_candidates"):
            eng.overrides[name] = lambda eng_, args: VecM([e[0] for e in models.deref(args[0]).entries if eng_.decide(e[1])])
    T = store.T
    blocks = []
    for name in ("a", "b"):
        iq = T.st("InputQuery", address=T.address(c03.addr_bytes(c03.ADDR_A)), min_amount=T.assets([T.asset(T.none(), T.none(), T.num(5))]), ref=T.none(), many=False, collateral=False)
        blocks.append(input_block(T, name, iq))
    tx = mk_tx(T, inputs=blocks)
    anytir = eng.mk_variant("AnyTir", "V1Beta0", [tx])
    st = Agg("Store", None, 0, [])
    try:
        r = models.deref(eng.block_on(eng.call_fn(eng.fns["resolve"], [anytir, ref_to_value(st)])))
    except Panic as p:
        eng.stats.panic_paths += 1
        ctx.violation("resolve panicked: %s" % p.kind, site=p.site, shape="resolve panics: %s" % p.kind)
        return
    ctx.require(r.variant == "Ok", "a wallet of %d UTxOs serves two small blocks" % n, shape="resolution fails on a wide wallet")
    if r.variant != "Ok":
        return
    out_tx = models.deref(models.deref(r.fields[0]).fields[0])
    sets = bound_sets(ctx, store, out_tx)
    all_idx = (sets.get("a") or []) + (sets.get("b") or [])
    ctx.require(len(all_idx) == 2 and None not in all_idx, "each block is bound to one UTxO of the store")
    ctx.require(len(all_idx) == len(set(all_idx)), "the sets bound to distinct input blocks are pairwise disjoint", shape="one UTxO bound to two input blocks (wallet wider than the search window)")


HARNESSES.append(_h("c04_wide_wallet", lambda ctx, tier, seed: h_wide_wallet(ctx, tier, seed, 51 if tier == "quick" else 70),
                    "2 blocks of one party over a concrete wallet of 51 (quick) / 70 (thorough) UTxOs: the narrowed search space reaches MAX_SEARCH_SPACE_SIZE", max_paths=2000, time_limit=1200, max_steps=20000000))
