"""C17 — the published interface (TII) names the argument keys the IR requires.

Both sides are the repository's code executed from MIR on one symbolic identifier:
  * interface side (bin/tx3c): `tii::infer_tx_params_schema(&TxDef)` / `tii::infer_env_schema(&Program)`
    build the JSON schema whose `properties` keys are the names a client is told to supply;
  * IR side (tx3-lang + tx3-tir): the analyzer's `Scope::track_param_var` / `track_env_var` create
    the symbol, `<Identifier as IntoLower>::into_lower` lowers a use of it, and `find_params` reports
    the key the resolver will look up in the argument map.
The identifier is a string of 1..3 symbolic characters of the grammar's identifier alphabet
([A-Za-z_] then [A-Za-z0-9_]); z3 decides whether some identifier gives two different spellings."""
import z3
from values import *
import models
from harness.hutil import *

CRATES = ["tx3c", "tx3-lang", "tx3-tir"]
ASSUMPTIONS = ["C17: identifiers of 1..3 characters over the grammar's alphabet; the analyzer passes `param.name.value` / `field.name` to track_param_var / track_env_var verbatim (read from TxDef::analyze / Program::analyze, not executed: they need the whole scope chain); parties (lower-cased on both sides inside emit_tii, which also performs file I/O), the JSON serialisation of the TII file and the embedded IR bytes are outside; serde_json's Map / to_value / from_value are models (ordered map; value constructors)"]


def ident(ctx, n, tag=""):
    eng = ctx.eng
    cs = [ctx.sym_int("%sc%d" % (tag, i), "u8") for i in range(n)]
    for i, c in enumerate(cs):
        alpha = z3.Or(z3.And(z3.UGE(c, 65), z3.ULE(c, 90)), z3.And(z3.UGE(c, 97), z3.ULE(c, 122)), c == 95)
        eng.assume(alpha if i == 0 else z3.Or(alpha, z3.And(z3.UGE(c, 48), z3.ULE(c, 57))))
    return cs


def install_json_models(eng):
    """serde_json::Map as an ordered map, Value constructors, (de)serialisation of leaves"""
    M = eng.models

    def val(eng_, x):
        x = models.deref(x)
        if isinstance(x, Ref):
            x = models.deref(x)
        if isinstance(x, MapM):
            return eng_.mk_variant("Value", "Object", [x])
        if isinstance(x, StrM):
            return eng_.mk_variant("Value", "String", [StrM(list(x.bytes), True)])
        if isinstance(x, (VecM, SliceV)):
            return eng_.mk_variant("Value", "Array", [VecM([val(eng_, i) for i in x.items])])
        if isinstance(x, Agg) and x.ty.split("::")[-1] == "Value":
            return x
        raise Unmodelled("to_value of %r" % (x,))
    M["Map::new"] = lambda e, a, c: MapM("BTreeMap", [])
    M["to_value"] = lambda e, a, c: ok(val(e, a[0]))
    M["from_value"] = lambda e, a, c: ok(Agg("Schema", None, 0, [a[0]]))

    def insert(e, a, c):
        m = models.deref(a[0])
        key = models.deref(a[1])
        for ent in m.entries:
            if e.decide(z3b(models.veq(e, ent[0], key))):
                old = ent[2]; ent[2] = a[2]
                return some(old)
        m.entries.append([key, True, a[2]])
        return none()
    M["Map::insert"] = insert


def schema_keys(eng, schema):
    """Schema(Value::Object{.., "properties": Object(map)}) -> list of key byte lists"""
    v = models.deref(models.deref(schema).fields[0])
    top = models.deref(v.fields[0])
    for k, p, x in top.entries:
        if models.deref(k).concrete() and models.deref(k).text() == "properties":
            inner = models.deref(models.deref(x).fields[0])
            return [list(models.deref(kk).bytes) for kk, pp, _ in inner.entries]
    return None


def ast_st(eng, ty_, hint="ast", **fields):
    q, d = eng.tdef(ty_, "struct", hint=hint)
    if d is None:
        raise Unmodelled("no struct %s" % ty_)
    return Agg(q, None, 0, [fields.get(f, Opaque("%s.%s" % (ty_, f))) for f in d[2]])


def ast_type(eng, variant):
    r = eng.mk_variant("Type", variant, [], "ast")
    if r is None:
        raise Unmodelled("ast::Type::%s" % variant)
    return r


def lowered_key(ctx, name, kind):
    """analyzer symbol for `name` -> lowering of a use of it -> the key find_params reports"""
    eng = ctx.eng; T = TIR(eng)
    scope = ast_st(eng, "Scope", hint="analyzing", symbols=MapM("HashMap", []), parent=none())
    cell = ref_to_value(scope)
    f = eng.find(short="Scope::track_param_var" if kind == "param" else "Scope::track_env_var")
    eng.call_fn(f, [cell, StrM(list(name)), ast_type(eng, "Int")])
    syms = models.deref(cell).fields[eng.tdef("Scope", "struct", hint="analyzing")[1][2].index("symbols")]
    ents = [e for e in models.deref(syms).entries if e[1] is not False]
    ctx.require(len(ents) == 1, "the analyzer tracks one symbol for the name")
    sym = ents[0][2]
    use = ast_st(eng, "Identifier", value=StrM(list(name), True), symbol=some(sym))
    cq, cd = eng.tdef("Context", "struct", hint="lowering")
    lctx = Agg(cq, None, 0, [False for _ in cd[2]])
    low = eng.find(trait="IntoLower", self_ty="Identifier", method="into_lower")
    r = models.deref(eng.call_fn(low, [ref_to_value(use), ref_to_value(lctx)]))
    ctx.require(r.variant == "Ok", "a use of the name lowers")
    if r.variant != "Ok":
        return None
    tx = mk_tx(T, fees=r.fields[0])
    pm = models.deref(eng.call_fn(eng.fns["find_params"], [ref_to_value(tx)]))
    keys = [list(models.deref(k).bytes) for k, p, _ in pm.entries if p is not False]
    ctx.require(len(keys) == 1, "the IR requires exactly one argument for the parameter")
    return keys[0] if keys else None


def same(eng, a, b):
    if len(a) != len(b):
        return z3.BoolVal(False)
    return z3b(b_and(*[eng.to_bv(x, 8) == eng.to_bv(y, 8) for x, y in zip(a, b)]))


def h_keys(ctx, tier, seed, kind):
    eng = ctx.eng
    install_json_models(eng)
    n = 1 + eng.choose(3, "identifier length")
    name = ident(ctx, n)
    if kind == "param":
        idt = ast_st(eng, "Identifier", value=StrM(list(name), True), symbol=none())
        pdef = ast_st(eng, "ParamDef", name=idt, type=ast_type(eng, "Int"))
        txdef = ast_st(eng, "TxDef", parameters=ast_st(eng, "ParameterList", parameters=VecM([pdef])))
        schema = eng.call_fn(eng.find(short="infer_tx_params_schema"), [ref_to_value(txdef)])
    else:
        fld = ast_st(eng, "EnvField", name=StrM(list(name), True), type=ast_type(eng, "Int"))
        prog = ast_st(eng, "Program", env=some(ast_st(eng, "EnvDef", fields=VecM([fld]))))
        schema = eng.call_fn(eng.find(short="infer_env_schema"), [ref_to_value(prog)])
    tii = schema_keys(eng, schema)
    ctx.require(tii is not None and len(tii) == 1, "the interface declares one key for the %s" % kind, shape="interface key missing")
    ir = lowered_key(ctx, name, kind)
    if not tii or ir is None:
        return
    what = "transaction parameter" if kind == "param" else "environment entry"
    ctx.require(same(eng, tii[0], ir), "the key the interface declares for a %s is the key the IR requires, spelled identically" % what,
                shape="%s declared under another spelling than the IR requires" % what)


def h_collision(ctx, tier, seed):
    """two parameters the source tells apart are not merged by either side into one key"""
    eng = ctx.eng
    install_json_models(eng)
    a, b = ident(ctx, 2, "a."), ident(ctx, 2, "b.")
    eng.assume(z3.Not(same(eng, a, b)))
    pdefs = [ast_st(eng, "ParamDef", name=ast_st(eng, "Identifier", value=StrM(list(x), True), symbol=none()), type=ast_type(eng, "Int")) for x in (a, b)]
    txdef = ast_st(eng, "TxDef", parameters=ast_st(eng, "ParameterList", parameters=VecM(pdefs)))
    tii = schema_keys(eng, eng.call_fn(eng.find(short="infer_tx_params_schema"), [ref_to_value(txdef)]))
    ka, kb = lowered_key(ctx, a, "param"), lowered_key(ctx, b, "param")
    if tii is None or ka is None or kb is None:
        return
    ctx.require(z3.Implies(z3.Not(same(eng, ka, kb)), len(tii) == 2), "parameters the IR tells apart are declared separately", shape="interface merges two parameters")
    ctx.require(z3.Implies(len(tii) == 2, z3.Not(same(eng, ka, kb))) if len(tii) == 2 else z3.BoolVal(True), "parameters declared separately are told apart by the IR (no collision)", shape="two declared parameters collide in the IR")


def _h(name, fn, bounds, tier="quick", **kw):
    d = dict(name=name, fn=fn, crates=CRATES, bounds=bounds, tier=tier)
    d.update(kw)
    return d


HARNESSES = [
    _h("c17_param_key", lambda ctx, tier, seed: h_keys(ctx, tier, seed, "param"), "one transaction parameter whose name is every identifier of 1..3 characters"),
    _h("c17_env_key", lambda ctx, tier, seed: h_keys(ctx, tier, seed, "env"), "one environment entry whose name is every identifier of 1..3 characters"),
    _h("c17_param_collision", h_collision, "two parameters with distinct 2-character names"),
]


# ---- the IR shipped for a transaction is the IR lowering produced for it --------------------------

def h_workspace_ir(ctx, tier, seed):
    """`tx3c` takes each transaction's IR from `Workspace::tir(name)`: the helper binary of C01 runs the
    real front end on a program with two transactions whose names differ only in case and compares,
    per transaction, the facade's IR with `lowering::lower(ast, name)`; the IR of `t` is then compiled
    from MIR and compared with the denotation of *its* body"""
    from harness import c01
    c01._mk("p20_two_txs_by_case")(ctx, tier, seed)


HARNESSES.append(_h("c17_workspace_ir_per_tx", h_workspace_ir, "corpus program p20 (transactions `t` and `T`) in 3 layouts: Workspace::tir vs lowering::lower per transaction; values symbolic",
                    crates=["tx3-tir", "tx3-cardano"], time_limit=900))
