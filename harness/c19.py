"""C19 — diagnostics point inside the text they are attached to (parse errors).

Real MIR of tx3_lang::parsing::Error::from_pest, From<InputLocation> for Span,
From<pest::Span> for Span (through Span::new) and From<Span> for miette::SourceSpan, with pest's
error object modelled by its documented contract: `location` is Pos(p) or Span((s, e)) with
0 <= s <= e <= input.len() absolute in the input that was parsed."""
import z3
from values import *
import models
import mirparse
from harness.hutil import *

CRATES = ["tx3-lang"]
ASSUMPTIONS = ["C19: pest's Error is modelled by its contract (absolute byte offsets within the parsed input; `line()` is the text of the line holding the start); spans of analysis errors and UTF-8 character boundaries are outside this check"]

MAXLEN = 12


def line_col_of(eng, text, off):
    """pest's Position::line_col contract for a byte offset into `text`: 1-based line and column"""
    starts = [0] + [i + 1 for i, c in enumerate(text) if c == 10]
    for k in reversed(range(len(starts))):
        if eng.decide(z3.UGE(off, starts[k]) if is_sym(off) else off >= starts[k]):
            return tup(k + 1, eng.binop("Add", eng.binop("Sub", off, starts[k], "usize"), 1, "usize"))
    return tup(1, 1)


def pest_error(eng, variant_custom, location, line_col=None):
    t = mirparse.foreign_types("pest", "src/error.rs")
    fields = t["Error"][1]
    ev = [v for v, _ in t["ErrorVariant"][1]]
    vals = {}
    if variant_custom:
        variant = Agg("ErrorVariant", "CustomError", ev.index("CustomError"), [StrM("boom", True)])
    else:
        variant = Agg("ErrorVariant", "ParsingError", ev.index("ParsingError"), [VecM([]), VecM([])])
    for f in fields:
        vals[f] = Opaque("pest." + f)
    vals["variant"] = variant
    vals["location"] = location
    if line_col is not None:
        vals["line_col"] = line_col
    return Agg("pest::Error", None, 0, [vals[f] for f in fields])


def h_from_pest(ctx, tier, seed):
    eng = ctx.eng
    t = mirparse.foreign_types("pest", "src/error.rs")
    il = [v for v, _ in t["InputLocation"][1]]
    L = eng.choose(MAXLEN + 1, "input length")
    text = [ord("a") + (i % 26) if (i % 5) else 10 for i in range(L)]   # lines of 4 chars
    custom = eng.choose(2, "error variant") == 1
    is_span = eng.choose(2, "location kind") == 1
    s_ = ctx.sym_int("start", "usize")
    e_ = ctx.sym_int("end", "usize")
    if is_span:
        eng.assume(z3.And(z3.ULE(s_, e_), z3.ULE(e_, L)))
        loc = Agg("InputLocation", "Span", il.index("Span"), [tup(s_, e_)])
    else:
        eng.assume(z3.And(s_ == e_, z3.ULE(s_, L)))
        loc = Agg("InputLocation", "Pos", il.index("Pos"), [s_])
    lc = [v for v, _ in t["LineColLocation"][1]]
    if is_span:
        line_col = Agg("LineColLocation", "Span", lc.index("Span"), [line_col_of(eng, text, s_), line_col_of(eng, text, e_)])
    else:
        line_col = Agg("LineColLocation", "Pos", lc.index("Pos"), [line_col_of(eng, text, s_)])
    err = pest_error(eng, custom, loc, line_col)

    def line_model(eng_, a, callee):
        # pest contract: the text of the line that holds the start offset
        starts = [0] + [i + 1 for i, c in enumerate(text) if c == 10]
        for k in reversed(range(len(starts))):
            if eng_.decide(z3.UGE(s_, starts[k])):
                end = text.index(10, starts[k]) if 10 in text[starts[k]:] else len(text)
                return StrM(text[starts[k]:end])
        return StrM([])
    eng.models["Error::line"] = line_model
    try:
        f = eng.find(short="parsing::Error::from_pest")
        args = [err, StrM(text)]
    except Unmodelled:
        # older shape of the code: `impl From<pest::error::Error<Rule>> for parsing::Error`
        f = eng.find(trait="From", self_ty="parsing::Error", method="from")
        args = [err]
    try:
        r = models.deref(eng.call_fn(f, args))
    except Panic as p:
        eng.stats.panic_paths += 1
        ctx.violation("from_pest panicked: %s" % p.kind, site=p.site)
        return
    q, d = eng.tdef("parsing::Error", "struct")
    names = d[2]
    src = models.deref(r.fields[names.index("src")])
    span = models.deref(r.fields[names.index("span")])
    sq, sd = eng.tdef("Span", "struct")
    start, end = span.fields[sd[2].index("start")], span.fields[sd[2].index("end")]
    ctx.require(isinstance(src, StrM), "the source text is a string")
    n = len(src.bytes)
    S, E = eng.to_bv(start, 64), eng.to_bv(end, 64)
    ctx.require(z3.And(z3.ULE(S, E), z3.ULE(E, n)), "span lies within the text the error carries (start <= end <= len)", shape="parse-error span outside its source text")
    ctx.require(z3.And(S == s_, E == e_), "span is the location pest reported")
    ctx.require(n == L and all(models.veq(eng, a, b) is True for a, b in zip(src.bytes, text)), "the source text is the input the offsets refer to", shape="parse-error source text is not the parsed input")
    # display-span conversion: no underflow, and the label miette renders is exactly the span
    # (miette's SourceSpan::new / SourceOffset::from are plain constructors: contract models)
    eng.models["SourceSpan::new"] = lambda e, a, c: Agg("SourceSpan", None, 0, [a[0], a[1]])
    eng.models["From::from@SourceOffset"] = lambda e, a, c: Agg("SourceOffset", None, 0, [a[0]])
    g = eng.find(trait="From", self_ty="SourceSpan", method="from", trait_generics="Span")
    try:
        lab = models.deref(eng.call_fn(g, [span]))
    except Panic as p:
        eng.stats.panic_paths += 1
        ctx.violation("Span -> SourceSpan panicked: %s" % p.kind, site=p.site)
        return
    off = models.deref(lab.fields[0])
    off = eng.to_bv(off.fields[0] if isinstance(off, Agg) else off, 64)
    ln = eng.to_bv(lab.fields[1], 64)
    ctx.require(z3.And(off == S, off + ln == E), "the label rendered for the error covers exactly the span (offset = start, offset + length = end <= len)", shape="display label differs from the span")


def _h(name, fn, bounds, tier="quick", **kw):
    d = dict(name=name, fn=fn, crates=CRATES, bounds=bounds, tier=tier)
    d.update(kw)
    return d


HARNESSES = [
    _h("c19_from_pest", h_from_pest, "input length 0..=12 (every length), location Pos / Span with symbolic offsets within the input, both error variants"),
]


# ---- name-resolution diagnostics: the located node is the name reported ---------------------------

def _ast(eng, ty_, hint="ast", **fields):
    q, d = eng.tdef(ty_, "struct", hint=hint)
    if d is None:
        raise Unmodelled("no struct %s" % ty_)
    return Agg(q, None, 0, [fields.get(f, Opaque("%s.%s" % (ty_, f))) for f in d[2]])


def _span(eng, s, e):
    q, d = eng.tdef("Span", "struct", hint="ast")
    vals = dict(dummy=False, start=s, end=e)
    return Agg(q, None, 0, [vals[f] for f in d[2]])


def h_not_in_scope(ctx, tier, seed):
    """the two sites that build a not-in-scope diagnostic (`Identifier::analyze`,
    `VariantCaseConstructor::analyze`) executed on a node whose name does not resolve: the diagnostic
    reports the identifier's text and carries the identifier's own span (the parser gives an
    identifier the span of exactly its text), not the span of an enclosing node"""
    eng = ctx.eng
    site = eng.choose(2, "site")
    n = 1 + eng.choose(3, "name length")
    cs = [ctx.sym_int("c%d" % i, "u8") for i in range(n)]
    for c in cs:
        eng.assume(z3.And(z3.UGE(c, 65), z3.ULE(c, 122)))
    s_ = ctx.sym_int("name.start", "usize")
    eng.assume(z3.ULT(s_, 1 << 32))
    name_span = _span(eng, s_, s_ + n)
    idt = _ast(eng, "Identifier", value=StrM(list(cs), True), span=name_span, symbol=none())
    if site == 0:
        node = ref_to_value(idt)
        f = eng.find(trait="Analyzable", self_ty="Identifier", method="analyze")
    else:
        # the enclosing constructor spans more text than the name: `::Name { .. }`
        os_ = ctx.sym_int("ctor.start", "usize"); oe_ = ctx.sym_int("ctor.end", "usize")
        eng.assume(z3.And(z3.ULE(os_, s_), z3.UGE(oe_, s_ + n), z3.ULT(oe_, 1 << 33), z3.Or(os_ != s_, oe_ != s_ + n)))
        node = ref_to_value(_ast(eng, "VariantCaseConstructor", name=idt, fields=VecM([]), spread=none(), span=_span(eng, os_, oe_), scope=none()))
        f = eng.find(trait="Analyzable", self_ty="VariantCaseConstructor", method="analyze")
    try:
        rep = models.deref(eng.call_fn(f, [node, none()]))
    except Panic as p:
        eng.stats.panic_paths += 1
        ctx.violation("analyze panicked: %s" % p.kind, site=p.site)
        return
    errs = models.deref(rep.fields[0]).items
    ctx.require(len(errs) >= 1, "an unresolved name is reported", shape="unresolved name not reported")
    found = False
    for e in errs:
        e = models.deref(e)
        if e.variant != "NotInScope":
            continue
        found = True
        inner = models.deref(e.fields[0])
        q, d = eng.tdef("NotInScopeError", "struct")
        nm = models.deref(inner.fields[d[2].index("name")])
        sp = models.deref(inner.fields[d[2].index("span")])
        sq, sd = eng.tdef("Span", "struct", hint="ast")
        st, en = sp.fields[sd[2].index("start")], sp.fields[sd[2].index("end")]
        ctx.require(len(nm.bytes) == n and z3b(b_and(*[eng.to_bv(a, 8) == b for a, b in zip(nm.bytes, cs)])), "the diagnostic reports the name that does not resolve", shape="not-in-scope diagnostic reports another name")
        ctx.require(z3.And(eng.to_bv(st, 64) == s_, eng.to_bv(en, 64) == s_ + n), "the diagnostic is located at the name itself (span = the identifier's span, whose text is the name)", shape="not-in-scope diagnostic located at another node than the name")
    ctx.require(found, "the report is a not-in-scope diagnostic", shape="unresolved name reported as something else")


HARNESSES.append(_h("c19_not_in_scope", h_not_in_scope, "Identifier / VariantCaseConstructor with an unresolvable name of 1..3 characters; spans symbolic"))
