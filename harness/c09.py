"""C09 (engine M part) — nested Plutus Data shapes: records with fields, lists, maps, on both
conversion paths (datum: compile_data_expr / compile_struct; redeemer: TryIntoData), compared
field by field with a specification tree built in the harness."""
import z3
from values import *
import models
from harness.hutil import *

CRATES = ["tx3-cardano", "tx3-tir"]
ASSUMPTIONS = ["C09/M: pallas' PlutusData constructors are plain aggregates; Int::try_from(i128) is a contract (Ok iff -2^64 <= x < 2^64), executed for real by the K twins c09_int_*; CBOR emission of the structure is pallas' codec (trusted)"]


def spec_tag(eng, idx):
    """(tag, any_constructor) for alternative idx (concrete or symbolic u64/usize)"""
    if isinstance(idx, int):
        if idx <= 6:
            return 121 + idx, None
        if idx <= 127:
            return 1280 + idx - 7, None
        return 102, idx
    raise Unmodelled("symbolic constructor index in spec")


def check_pd(ctx, got, spec, where):
    """compare an actual PlutusData value (Agg tree) with a spec tree; emits obligations"""
    eng = ctx.eng
    got = models.deref(got)
    kind = spec[0]
    if kind == "constr":
        ok_shape = isinstance(got, Agg) and got.variant == "Constr"
        ctx.require(ok_shape, "%s: a record/variant compiles to Constr" % where)
        if not ok_shape:
            return
        c = models.deref(got.fields[0])
        names = eng.tdef("Constr", "struct")[1][2]
        tag, anyc, fields = (c.fields[names.index(n)] for n in ("tag", "any_constructor", "fields"))
        idx = spec[1]
        # tag per the Plutus Data convention, for a concrete or symbolic index
        I = eng.to_bv(idx, 64)
        T = eng.to_bv(tag, 64)
        anyc = models.deref(anyc)
        small = z3.ULE(I, 6); mid = z3.And(z3.UGT(I, 6), z3.ULE(I, 127))
        if anyc.variant == "None":
            ctx.require(z3.Or(z3.And(small, T == 121 + I), z3.And(mid, T == 1280 + (I - 7))), "%s: compact constructor tag follows the convention" % where, shape="constructor tag wrong")
        else:
            ctx.require(z3.And(z3.UGT(I, 127), T == 102, eng.to_bv(anyc.fields[0], 64) == I), "%s: general constructor tag 102 carries the index" % where, shape="constructor tag wrong")
        fv = models.deref(fields)
        ctx.require(isinstance(fv, Agg) and fv.variant == "Def", "%s: fields are a definite-length array" % where)
        items = models.deref(fv.fields[0]).items
        ctx.require(len(items) == len(spec[2]), "%s: field count preserved" % where, shape="record fields dropped or added")
        for i, (g, sp) in enumerate(zip(items, spec[2])):
            check_pd(ctx, g, sp, "%s.field%d" % (where, i))
    elif kind == "int":
        ok_shape = isinstance(got, Agg) and got.variant == "BigInt"
        ctx.require(ok_shape, "%s: an integer compiles to BigInt" % where)
        if not ok_shape:
            return
        b = models.deref(got.fields[0])
        x = eng.to_bv(spec[1], 128)
        if b.variant == "Int":
            v = models.deref(b.fields[0]).fields[0]
            ctx.require(eng.to_bv(v, 128) == x, "%s: integer is exact" % where, shape="integer field altered")
        else:
            bs = models.deref(models.deref(b.fields[0]).fields[0]).items
            mag = z3.BitVecVal(0, 128)
            for byte in bs:
                mag = (mag << 8) | z3.ZeroExt(120, eng.to_bv(byte, 8))
            if b.variant == "BigUInt":
                ctx.require(z3.And(x >= z3.BitVecVal(1 << 64, 128), mag == x), "%s: positive bignum magnitude is exact" % where, shape="bignum magnitude wrong")
            else:
                ctx.require(z3.And(x < z3.BitVecVal(-(1 << 64), 128), mag == -1 - x), "%s: negative bignum stands for -1 - n" % where, shape="bignum magnitude wrong")
    elif kind == "bytes":
        ok_shape = isinstance(got, Agg) and got.variant == "BoundedBytes"
        ctx.require(ok_shape, "%s: bytes compile to BoundedBytes" % where)
        if not ok_shape:
            return
        bs = models.deref(models.deref(got.fields[0]).fields[0]).items
        ctx.require(len(bs) == len(spec[1]) and all(models.veq(eng, a, b) is True for a, b in zip(bs, spec[1])) or
                    (len(bs) == len(spec[1]) and models.veq(eng, VecM(bs), VecM(spec[1]))), "%s: byte string preserved" % where, shape="byte string altered")
    elif kind == "list":
        ok_shape = isinstance(got, Agg) and got.variant == "Array"
        ctx.require(ok_shape, "%s: a list compiles to Array" % where)
        if not ok_shape:
            return
        arr = models.deref(got.fields[0])
        items = models.deref(arr.fields[0]).items
        ctx.require(len(items) == len(spec[1]), "%s: list length preserved" % where, shape="list elements dropped or added")
        for i, (g, sp) in enumerate(zip(items, spec[1])):
            check_pd(ctx, g, sp, "%s[%d]" % (where, i))
    elif kind == "map":
        ok_shape = isinstance(got, Agg) and got.variant == "Map"
        ctx.require(ok_shape, "%s: a map compiles to Map" % where)
        if not ok_shape:
            return
        kv = models.deref(got.fields[0])
        inner = models.deref(kv.fields[0]) if isinstance(kv, Agg) else kv
        if isinstance(inner, MapM):
            ctx.violation("%s: map entries were collected into an ordered map (source order and duplicates lost)" % where, shape="map entries reordered or deduplicated")
            return
        items = inner.items
        ctx.require(len(items) == len(spec[1]), "%s: map entry count preserved" % where, shape="map entries dropped or added")
        for i, (g, (sk, sv)) in enumerate(zip(items, spec[1])):
            g = models.deref(g)
            check_pd(ctx, g.fields[0], sk, "%s.key%d" % (where, i))
            check_pd(ctx, g.fields[1], sv, "%s.val%d" % (where, i))
    else:
        raise Unmodelled("spec kind " + kind)


def _paths(eng):
    datum = eng.find(short="compile_data_expr")
    red = eng.find(trait="TryIntoData", self_ty="Expression", method="try_as_data")
    return [("datum", datum), ("redeemer", red)]


def _run(ctx, expr, spec, label):
    eng = ctx.eng
    which = eng.choose(2, "conversion path")
    pname, f = _paths(eng)[which]
    try:
        r = models.deref(eng.call_fn(f, [ref_to_value(expr)]))
    except Panic as p:
        eng.stats.panic_paths += 1
        ctx.violation("%s path panicked on %s: %s" % (pname, label, p.kind), site=p.site)
        return
    ctx.require(r.variant == "Ok", "%s path accepts %s" % (pname, label), shape="constant data rejected")
    if r.variant == "Ok":
        check_pd(ctx, r.fields[0], spec, "%s:%s" % (pname, label))


def h_record(ctx, tier, seed):
    eng = ctx.eng; T = TIR(eng)
    idx = ctx.sym_int("constructor", "usize")
    a = ctx.sym_int("a", "i128"); b = ctx.sym_int("b", "i128")
    c = ctx.sym_bool("c")
    eng.assume(z3.And(b >= -(1 << 63), b < (1 << 63)))     # bignum arms: one field (a) is enough here
    e = T.struct(idx, [T.num(a), T.boolean(c), T.num(b), T.bytes([1, 2, 3])])
    cidx = z3.If(c, z3.BitVecVal(1, 64), z3.BitVecVal(0, 64))
    _run(ctx, e, ("constr", idx, [("int", a), ("constr", cidx, []), ("int", b), ("bytes", [1, 2, 3])]), "record")


def h_list(ctx, tier, seed):
    eng = ctx.eng; T = TIR(eng)
    a = ctx.sym_int("a", "i128"); b = ctx.sym_int("b", "i128"); c = ctx.sym_int("c", "i128")
    for k in (b, c):
        eng.assume(z3.And(k >= -(1 << 63), k < (1 << 63)))
    e = T.list([T.num(a), T.num(b), T.num(c)])
    _run(ctx, e, ("list", [("int", a), ("int", b), ("int", c)]), "list")


def h_map(ctx, tier, seed):
    """keys symbolic: every relative order and equality of keys"""
    eng = ctx.eng; T = TIR(eng)
    k1 = ctx.sym_int("k1", "i128"); k2 = ctx.sym_int("k2", "i128"); k3 = ctx.sym_int("k3", "i128")
    v1 = ctx.sym_int("v1", "i128"); v2 = ctx.sym_int("v2", "i128")
    for k in (k1, k2, k3, v1, v2):
        eng.assume(z3.And(k >= -(1 << 63), k < (1 << 63)))
    e = T.map([(T.num(k1), T.num(v1)), (T.num(k2), T.num(v2)), (T.num(k3), T.bytes([9]))])
    _run(ctx, e, ("map", [(("int", k1), ("int", v1)), (("int", k2), ("int", v2)), (("int", k3), ("bytes", [9]))]), "map")


def h_nested(ctx, tier, seed):
    eng = ctx.eng; T = TIR(eng)
    a = ctx.sym_int("a", "i128"); k1 = ctx.sym_int("k1", "i128"); k2 = ctx.sym_int("k2", "i128")
    for k in (a, k1, k2):
        eng.assume(z3.And(k >= -(1 << 63), k < (1 << 63)))
    inner_map = T.map([(T.num(k1), T.num(a)), (T.num(k2), T.list([T.num(a)]))])
    e = T.struct(8, [T.list([inner_map, T.struct(130, [])]), T.address([5, 6])])
    spec = ("constr", 8, [("list", [("map", [(("int", k1), ("int", a)), (("int", k2), ("list", [("int", a)]))]), ("constr", 130, [])]), ("bytes", [5, 6])])
    _run(ctx, e, spec, "nested")


def _h(name, fn, bounds, tier="quick", **kw):
    d = dict(name=name, fn=fn, crates=CRATES, bounds=bounds, tier=tier)
    d.update(kw)
    return d


HARNESSES = [
    _h("c09m_record", h_record, "record with 4 fields; constructor index: whole usize range; one integer whole i128 range, one i64 range; both paths"),
    _h("c09m_list", h_list, "3-element list; first integer whole i128 range, others i64 range; both paths"),
    _h("c09m_map", h_map, "3-entry map with symbolic i64 keys (every relative order, equal keys included); both paths"),
    _h("c09m_nested", h_nested, "record > list > map > list, depth 4; both paths"),
]


# ---- fields in declaration order: the front end decides it ----------------------------------------
# The order of the fields of a record / variant case is fixed when the constructor is lowered
# (tx3-lang), not in the Plutus Data conversion.  The corpus programs of C01 that write fields out of
# declaration order, use a spread, or name variant cases are therefore run here as well: real
# parse -> analyze -> lower (helper binary), then the back end from MIR, datum tree compared with the
# declaration-ordered denotation.
def _front(prog):
    def h(ctx, tier, seed):
        from harness import c01          # lazy: c01 imports this module
        c01._mk(prog)(ctx, tier, seed)
    return h


for _p in ("p09_record_order", "p03_datum_spread"):
    HARNESSES.append(_h("c09_front_end_" + _p, _front(_p), "corpus program %s (fields written out of declaration order / spread / variant cases) in 3 layouts through the real front end; values symbolic" % _p,
                        crates=["tx3-tir", "tx3-cardano"], time_limit=900))
