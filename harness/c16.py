"""C16 — JSON arguments are coerced faithfully and safely at the service boundary.

Real MIR of tx3_resolver::interop (from_json and the per-type coercions) and
tx3_resolver::trp (envelope decoding, parse_resolve_request) with strings as lists of symbolic
bytes of every length up to a bound, and the text primitives they call as models
(starts_with, trim_start_matches, split_once, hex::decode, from_str_radix, parse::<u32>,
<[u8;16]>::try_from, from_be_bytes)."""
import z3
from values import *
import models
from harness.hutil import *

CRATES = ["tx3-resolver", "tx3-tir"]
ASSUMPTIONS = ["C16: serde_json's parser runs before this code (values are serde_json::Value aggregates); JSON numbers are integers in [i64::MIN, u64::MAX]; bech32 / base64 decoding and the TIR wire decoder are uninterpreted (Ok or Err); strings longer than the stated bounds are outside"]


def jstr(eng, bs):
    return eng.mk_variant("Value", "String", [StrM(list(bs), True)])


def jnum(eng, v):
    return eng.mk_variant("Value", "Number", [Agg("Number", None, 0, [v])])


def ty(eng, name):
    return ref_to_value(eng.mk_variant("Type", name, []))


def _conc(eng, v, m):
    """concrete Python / JSON form of a model value under the z3 model m (None: not concretisable)"""
    v = models.deref(v)
    if isinstance(v, bool):
        return v
    if isinstance(v, int):
        return v
    if is_sym(v):
        x = m.eval(v, model_completion=True)
        if z3.is_bool(x):
            return z3.is_true(x)
        return x.as_long()
    if isinstance(v, StrM):
        bs = [_conc(eng, b, m) for b in v.bytes]
        try:
            return bytes(bs).decode("utf-8")
        except UnicodeDecodeError:
            return None
    if isinstance(v, (VecM, SliceV)):
        return [_conc(eng, x, m) for x in v.items]
    if isinstance(v, Opaque):
        return None
    if isinstance(v, Agg):
        base = v.ty.split("::")[-1]
        if base == "Value":
            if v.variant == "Null":
                return ("json", None)
            if v.variant in ("Bool", "String"):
                x = _conc(eng, v.fields[0], m)
                return None if x is None else ("json", x)
            if v.variant == "Number":
                return ("json", _conc(eng, models.deref(v.fields[0]).fields[0], m))
            if v.variant == "Array":
                xs = [_conc(eng, x, m) for x in models.deref(v.fields[0]).items]
                return None if any(x is None for x in xs) else ("json", [x[1] for x in xs])
            return None
        if base == "ArgValue":
            if v.variant == "Int":
                x = _conc(eng, v.fields[0], m)
                w = 1 << 128
                x = x - w if x >= (1 << 127) else x
                return {"Int": str(x)}
            if v.variant in ("Bool", "String"):
                return {v.variant: _conc(eng, v.fields[0], m)}
            if v.variant in ("Bytes", "Address"):
                x = _conc(eng, v.fields[0], m)
                return None if x is None or any(b is None for b in x) else {v.variant: x}
            if v.variant == "UtxoRef":
                u = models.deref(v.fields[0])
                names = eng.tdef("UtxoRef", "struct", hint="core")[1][2]
                return {"UtxoRef": {"txid": _conc(eng, u.fields[names.index("txid")], m), "index": _conc(eng, u.fields[names.index("index")], m)}}
        return None
    return None


def native_outcome(value_json, tname):
    import native
    r = native.run([dict(cmd="from_json", value=value_json, type=tname)])[0]
    if "ok" in r:
        return ("ok", r["ok"])
    return ("panic", None) if "panic" in r else ("err", None)


def call_from_json(ctx, value, tname):
    """runs the real from_json from MIR; registers the native replay of this very call: under a
    counterexample model the concrete JSON value goes through the native binary and the native
    outcome must be the outcome engine M computed (then the violated oracle carries over)"""
    eng = ctx.eng
    state = dict(outcome=None)

    def hook(m):
        cv = _conc(eng, value, m)
        if cv is None or state["outcome"] is None:
            return None
        kind, payload = state["outcome"]
        want = (kind, _conc(eng, payload, m) if kind == "ok" else None)
        if kind == "ok" and want[1] is None:
            return None
        got = native_outcome(cv[1], tname)
        return got == want
    ctx.replay_hook = hook
    try:
        r = models.deref(eng.call_fn(eng.fns["from_json"], [value, ty(eng, tname)]))
        state["outcome"] = ("ok", r.fields[0]) if r.variant == "Ok" else ("err", None)
        return r
    except Panic as p:
        eng.stats.panic_paths += 1
        state["outcome"] = ("panic", None)
        ctx.violation("from_json panicked: %s" % p.kind, site=p.site, shape="from_json panics")
        return None


def hexchar(nib, upper):
    base = 55 if upper else 87
    return z3.If(z3.ULT(nib, 10), z3.ZeroExt(4, nib) + 48, z3.ZeroExt(4, nib) + base)


def h_int_hex(ctx, tier, seed):
    """0x + 16-byte big-endian hex decodes to the integer it encodes, for every i128"""
    eng = ctx.eng
    v = ctx.sym_int("v", "i128")
    upper = eng.choose(2, "hex digit case") == 1
    chars = [48, 120] + [hexchar(z3.Extract(127 - 4 * i, 124 - 4 * i, v), upper) for i in range(32)]
    r = call_from_json(ctx, jstr(eng, chars), "Int")
    if r is None:
        return
    ctx.require(r.variant == "Ok", "the documented 0x-hex encoding of an integer is accepted", shape="0x-hex integer rejected")
    if r.variant == "Ok":
        a = models.deref(r.fields[0])
        ctx.require(a.variant == "Int", "an Int argument is produced")
        ctx.require(eng.to_bv(a.fields[0], 128) == v, "0x-hex decodes to the value it encodes", shape="0x-hex integer decoded to another value")


def h_int_dec(ctx, tier, seed):
    """decimal strings (optional sign, 1..6 digits)"""
    eng = ctx.eng
    sign = eng.choose(3, "sign")         # none, '-', '+'
    n = 1 + eng.choose(6, "digits")
    ds = [ctx.sym_int("d%d" % i, "u8") for i in range(n)]
    for d in ds:
        eng.assume(z3.And(z3.UGE(d, 48), z3.ULE(d, 57)))
    chars = ([45] if sign == 1 else [43] if sign == 2 else []) + ds
    r = call_from_json(ctx, jstr(eng, chars), "Int")
    if r is None:
        return
    ctx.require(r.variant == "Ok", "a decimal string is accepted", shape="decimal integer rejected")
    if r.variant == "Ok":
        val = z3.BitVecVal(0, 128)
        for d in ds:
            val = val * 10 + z3.ZeroExt(120, d - 48)
        if sign == 1:
            val = -val
        ctx.require(eng.to_bv(models.deref(r.fields[0]).fields[0], 128) == val, "a decimal string decodes to its value", shape="decimal integer decoded to another value")


def h_int_number(ctx, tier, seed):
    eng = ctx.eng
    v = ctx.sym_int("n", "i128")
    eng.assume(z3.And(v >= -(1 << 63), v <= (1 << 64) - 1))
    r = call_from_json(ctx, jnum(eng, v), "Int")
    if r is None:
        return
    ctx.require(r.variant == "Ok" and eng.feasible(True), "a JSON integer is accepted as Int")
    if r.variant == "Ok":
        ctx.require(eng.to_bv(models.deref(r.fields[0]).fields[0], 128) == v, "a JSON integer is taken exactly", shape="JSON number altered")


def h_bool(ctx, tier, seed):
    eng = ctx.eng
    k = eng.choose(6, "boolean form")
    if k == 0:
        b = ctx.sym_bool("b")
        r = call_from_json(ctx, eng.mk_variant("Value", "Bool", [b]), "Bool"); want = b
    elif k == 1:
        v = ctx.sym_int("n", "i128")
        eng.assume(z3.And(v >= -(1 << 63), v <= (1 << 64) - 1))
        r = call_from_json(ctx, jnum(eng, v), "Bool")
        if r is None:
            return
        ctx.require((z3.Or(v == 0, v == 1)) if r.variant == "Ok" else z3.And(v != 0, v != 1), "only the numbers 0 and 1 are booleans", shape="number accepted / rejected as boolean wrongly")
        if r.variant == "Ok":
            got = models.deref(r.fields[0]).fields[0]
            ctx.require((v == 1) if got is True else (v == 0) if got is False else (got == (v == 1)), "0 is false, 1 is true", shape="boolean number decoded wrongly")
        return
    elif k in (2, 3):
        word = b"true" if k == 2 else b"false"
        r = call_from_json(ctx, jstr(eng, list(word)), "Bool"); want = (k == 2)
    else:
        # any other string of 4 or 5 symbolic characters
        n = 4 if k == 4 else 5
        cs = [ctx.sym_int("c%d" % i, "u8") for i in range(n)]
        r = call_from_json(ctx, jstr(eng, cs), "Bool")
        if r is None:
            return
        word = b"true" if n == 4 else b"false"
        is_word = z3.And(*[c == w for c, w in zip(cs, word)])
        ctx.require(is_word if r.variant == "Ok" else z3.Not(is_word), "only the strings true / false are booleans", shape="string accepted / rejected as boolean wrongly")
        return
    if r is None:
        return
    ctx.require(r.variant == "Ok", "a documented boolean form is accepted", shape="boolean form rejected")
    if r.variant == "Ok":
        got = models.deref(r.fields[0]).fields[0]
        ctx.require(models.veq(eng, got, want), "the boolean form decodes to its value", shape="boolean decoded wrongly")


def h_bytes(ctx, tier, seed):
    """bare hex and 0x-hex of 0..3 bytes (both digit cases)"""
    eng = ctx.eng
    n = eng.choose(4, "byte count")
    prefix = eng.choose(2, "0x prefix") == 1
    upper = eng.choose(2, "hex digit case") == 1
    bs = [ctx.sym_int("b%d" % i, "u8") for i in range(n)]
    chars = [48, 120] if prefix else []
    for b in bs:
        chars += [hexchar(z3.Extract(7, 4, b), upper), hexchar(z3.Extract(3, 0, b), upper)]
    r = call_from_json(ctx, jstr(eng, chars), "Bytes")
    if r is None:
        return
    ctx.require(r.variant == "Ok", "hex text is accepted as bytes", shape="hex bytes rejected")
    if r.variant == "Ok":
        got = models.deref(models.deref(r.fields[0]).fields[0]).items
        ctx.require(len(got) == n, "byte count preserved", shape="hex bytes decoded to another length")
        if len(got) == n and n:
            ctx.require(z3.And(*[eng.to_bv(g, 8) == b for g, b in zip(got, bs)]), "hex decodes to the bytes it encodes", shape="hex bytes decoded wrongly")


def h_utxo_ref(ctx, tier, seed):
    """txid#index with a 2-byte txid and an index of 1..4 decimal digits"""
    eng = ctx.eng
    tb = [ctx.sym_int("t%d" % i, "u8") for i in range(2)]
    nd = 1 + eng.choose(4, "index digits")
    ds = [ctx.sym_int("d%d" % i, "u8") for i in range(nd)]
    for d in ds:
        eng.assume(z3.And(z3.UGE(d, 48), z3.ULE(d, 57)))
    chars = []
    for b in tb:
        chars += [hexchar(z3.Extract(7, 4, b), False), hexchar(z3.Extract(3, 0, b), False)]
    chars += [35] + ds
    r = call_from_json(ctx, jstr(eng, chars), "UtxoRef")
    if r is None:
        return
    ctx.require(r.variant == "Ok", "txid#index is accepted", shape="utxo ref rejected")
    if r.variant == "Ok":
        u = models.deref(models.deref(r.fields[0]).fields[0])
        names = eng.tdef("UtxoRef", "struct", hint="core")[1][2]
        txid = models.deref(u.fields[names.index("txid")]).items
        idx = u.fields[names.index("index")]
        val = z3.BitVecVal(0, 32)
        for d in ds:
            val = val * 10 + z3.ZeroExt(24, d - 48)
        ctx.require(eng.to_bv(idx, 32) == val, "the output index is the decimal number after #", shape="utxo ref index decoded wrongly")
        ctx.require(len(txid) == 2 and True, "txid length preserved")
        if len(txid) == 2:
            ctx.require(z3.And(*[eng.to_bv(g, 8) == b for g, b in zip(txid, tb)]), "the txid is the hex before #", shape="utxo ref txid decoded wrongly")


def printable(eng, c):
    eng.assume(z3.And(z3.UGE(c, 32), z3.ULE(c, 126)))


def h_illformed(ctx, tier, seed):
    """every string of up to N printable ASCII characters, every target type: Ok only for a
    documented encoding, never a panic"""
    eng = ctx.eng
    maxlen = 4 if tier == "quick" else 6
    n = eng.choose(maxlen + 1, "string length")
    target = ["Int", "Bytes", "UtxoRef", "Bool"][eng.choose(4, "target type")]
    cs = [ctx.sym_int("c%d" % i, "u8") for i in range(n)]
    for c in cs:
        printable(eng, c)
    r = call_from_json(ctx, jstr(eng, cs), target)
    if r is None or r.variant != "Ok":
        return
    import models_str as S
    hexd = lambda c: S.is_hex(eng, c)
    dig = lambda c: S.is_digit(eng, c)
    if target == "Bytes":
        bare = z3.And(n % 2 == 0, *[hexd(c) for c in cs]) if n else z3.BoolVal(True)
        pref = z3.And(n >= 2 and n % 2 == 0, cs[0] == 48, cs[1] == 120, *[hexd(c) for c in cs[2:]]) if n >= 2 else z3.BoolVal(False)
        ctx.require(z3.Or(bare, pref), "text accepted as bytes is hex, optionally behind one 0x prefix", shape="ill-formed bytes text accepted")
    elif target == "Int":
        dec = z3.Or(z3.And(n >= 1, *[dig(c) for c in cs]) if n >= 1 else z3.BoolVal(False),
                    z3.And(n >= 2, z3.Or(cs[0] == 45, cs[0] == 43), *[dig(c) for c in cs[1:]]) if n >= 2 else z3.BoolVal(False))
        # a 0x integer needs 32 digits: impossible within this length bound
        ctx.require(dec, "text accepted as an integer is a decimal numeral", shape="ill-formed integer text accepted")
    elif target == "Bool":
        ctx.require(z3.Or(z3.And(n == 4, *[c == w for c, w in zip(cs, b"true")]) if n == 4 else z3.BoolVal(False),
                          z3.And(n == 5, *[c == w for c, w in zip(cs, b"false")]) if n == 5 else z3.BoolVal(False)), "text accepted as a boolean is true / false", shape="ill-formed boolean text accepted")
    else:
        alts = []
        for k in range(n):
            if (k % 2) == 0 and n - k - 1 >= 1:
                alts.append(z3.And(cs[k] == 35, *([hexd(c) for c in cs[:k]] + [dig(c) for c in cs[k + 1:]])))
            if (k % 2) == 0 and n - k - 1 >= 2:
                alts.append(z3.And(cs[k] == 35, cs[k + 1] == 43, *([hexd(c) for c in cs[:k]] + [dig(c) for c in cs[k + 2:]])))
        ctx.require(z3.Or(*alts) if alts else z3.BoolVal(False), "text accepted as a UTxO reference is hex#decimal", shape="ill-formed utxo ref text accepted")


def h_envelope(ctx, tier, seed):
    """TirEnvelope with arbitrary content of 0..4 characters, both encodings, any version: the
    conversion returns Ok or Err, never panics"""
    eng = ctx.eng
    n = eng.choose(5, "content length")
    cs = [ctx.sym_int("c%d" % i, "u8") for i in range(n)]
    for c in cs:
        printable(eng, c)
    enc = ["Hex", "Base64"][eng.choose(2, "encoding")]
    ver = ["v1beta0", "v1alpha8", "nonsense"][eng.choose(3, "version")]
    env = Agg("trp::TirEnvelope" if len(eng.typedefs.get("TirEnvelope", [])) > 1 else "TirEnvelope", None, 0, [])
    q, d = eng.tdef("TirEnvelope", "struct", hint="spec")
    vals = dict(content=StrM(cs, True), encoding=eng.mk_variant("BytesEncoding", enc, [], "interop"), version=StrM(ver, True))
    env = Agg(q, None, 0, [vals[f] for f in d[2]])
    # the wire decoder (ciborium) is uninterpreted: it yields a template or fails; the version gate
    # of the real from_bytes is executed
    dr = [n_ for n_ in eng.fns if n_ == "decode_root" or n_.endswith("::decode_root")][0]
    eng.overrides[dr] = lambda e, a: ok(Opaque("decoded_tx")) if e.choose(2, "wire decode") == 0 else err(e.mk_variant("Error", "TirDeserializeError", [StrM("x", True)], "encoding"))
    f = eng.find(trait="TryFrom", self_ty="AnyTir", method="try_from")
    try:
        r = models.deref(eng.call_fn(f, [env]))
    except Panic as p:
        eng.stats.panic_paths += 1
        ctx.violation("decoding a TIR envelope panicked: %s" % p.kind, site=p.site, shape="envelope decoding panics (%s)" % enc)
        return
    ctx.require(r.variant in ("Ok", "Err"), "envelope decoding returns a result")
    if r.variant == "Ok":
        ctx.require(ver == "v1beta0", "only the supported version is accepted", shape="retired / unknown TIR version accepted")


def h_request(ctx, tier, seed):
    """parse_resolve_request hands over exactly the declared parameters that args or env supply"""
    eng = ctx.eng; T = TIR(eng)
    from harness.c06 import leaf, out
    tx = mk_tx(T, fees=leaf(T, "quantity"), outputs=[out(T, datum=leaf(T, "flag_b"))])
    # flag_b is declared Bool
    models.deref_box(models.deref(tx.fields[eng.tdef("Tx", "struct")[1][2].index("outputs")]).items[0].fields[1].fields[0]).fields[1] = T.v("Type", "Bool")
    anytir = eng.mk_variant("AnyTir", "V1Beta0", [tx])
    dr = [n_ for n_ in eng.fns if n_ == "decode_root" or n_.endswith("::decode_root")][0]
    eng.overrides[dr] = lambda e, a: ok(models.vclone(e, tx))
    keys = ["quantity", "flag_b", "Quantity", "other"]
    in_args = {k: ctx.sym_bool("args.has_" + k) for k in keys}
    in_env = {k: ctx.sym_bool("env.has_" + k) for k in ("quantity", "flag_b", "other")}
    qv = ctx.sym_int("quantity", "i128")
    eng.assume(z3.And(qv >= -(1 << 63), qv <= (1 << 64) - 1))
    vals = {"quantity": jnum(eng, qv), "flag_b": jstr(eng, list(b"true")), "Quantity": jstr(eng, list(b"zzz")), "other": jstr(eng, list(b"x"))}
    args = MapM("BTreeMap", [[StrM(k, True), in_args[k], vals[k]] for k in keys])
    envm = MapM("BTreeMap", [[StrM(k, True), in_env[k], models.vclone(eng, vals[k])] for k in in_env])
    q, d = eng.tdef("TirEnvelope", "struct", hint="spec")
    tvals = dict(content=StrM("00", True), encoding=eng.mk_variant("BytesEncoding", "Hex", [], "interop"), version=StrM("v1beta0", True))
    env = Agg(q, None, 0, [tvals[f] for f in d[2]])
    rq, rd = eng.tdef("ResolveParams", "struct")
    has_env = eng.choose(2, "env present") == 1
    req = Agg(rq, None, 0, [{"args": args, "tir": env, "env": some(envm) if has_env else none()}[f] for f in rd[2]])
    try:
        r = models.deref(eng.call_fn(eng.find(short="parse_resolve_request"), [req]))
    except Panic as p:
        eng.stats.panic_paths += 1
        ctx.violation("parse_resolve_request panicked: %s" % p.kind, site=p.site, shape="request parsing panics")
        return
    ctx.require(r.variant == "Ok", "a well-formed request parses", shape="well-formed request rejected")
    if r.variant != "Ok":
        return
    amap = models.deref(models.deref(r.fields[0]).fields[1])
    got = {}
    for k, p, v in amap.entries:
        if p is not False:
            got[models.deref(k).text()] = (p, models.deref(v))
    for k in ("Quantity", "other"):
        ctx.require(k not in got, "an undeclared key (%s) is not handed to the template" % k, shape="undeclared key handed over")
    for k in ("quantity", "flag_b"):
        supplied = z3.Or(in_args[k], z3.And(has_env, in_env[k])) if has_env else in_args[k]
        if k in got:
            p, v = got[k]
            ctx.require(supplied if p is True else z3.Implies(p, supplied), "a declared parameter (%s) is handed over only if the request supplies it" % k, shape="parameter invented")
            if k == "quantity":
                ctx.require(v.variant == "Int" and True, "quantity is coerced by its declared type (Int)", shape="argument coerced by the wrong type")
                if v.variant == "Int":
                    ctx.require(eng.to_bv(v.fields[0], 128) == qv, "quantity keeps its value")
            else:
                ctx.require(v.variant == "Bool" and (v.fields[0] is True), "flag_b is coerced by its declared type (Bool)", shape="argument coerced by the wrong type")
        else:
            ctx.require(z3.Not(supplied), "a declared parameter (%s) supplied under args or env reaches the template" % k, shape="supplied parameter dropped (%s)" % ("env" if has_env else "args"))


def _h(name, fn, bounds, tier="quick", **kw):
    d = dict(name=name, fn=fn, crates=CRATES, bounds=bounds, tier=tier)
    d.update(kw)
    return d


HARNESSES = [
    _h("c16_int_hex", h_int_hex, "every i128 through 0x + 32 hex digits (lower and upper case)"),
    _h("c16_int_dec", h_int_dec, "decimal strings: optional sign, 1..6 symbolic digits"),
    _h("c16_int_number", h_int_number, "JSON integers in [i64::MIN, u64::MAX]"),
    _h("c16_bool", h_bool, "Bool / every JSON integer / the strings true, false / every other 4- or 5-character string"),
    _h("c16_bytes", h_bytes, "0..3 symbolic bytes as bare hex and 0x-hex, both digit cases"),
    _h("c16_utxo_ref", h_utxo_ref, "2-byte txid, index of 1..4 symbolic decimal digits"),
    _h("c16_illformed", h_illformed, "every string of 0..4 (quick) / 0..6 (thorough) printable ASCII characters x {Int, Bytes, UtxoRef, Bool}", max_paths=200000, time_limit=1500),
    _h("c16_envelope", h_envelope, "TirEnvelope content of 0..4 printable characters x {hex, base64} x {v1beta0, v1alpha8, other}; wire decoder uninterpreted"),
    _h("c16_request", h_request, "2 declared parameters (Int, Bool) + a differently-cased and an undeclared key; presence of each key in args and in env symbolic; env present/absent"),
]


# ---- addresses, bytes envelopes, every value kind x every target type ----------------------------

def h_address(ctx, tier, seed):
    """an address given as hex (with / without 0x, both digit cases, 0..3 bytes) is the bytes the
    text encodes; given as bech32 it is the payload the bech32 decoder returns"""
    eng = ctx.eng
    n = eng.choose(4, "byte count")
    prefix = eng.choose(2, "0x prefix") == 1
    upper = eng.choose(2, "hex digit case") == 1
    bs = [ctx.sym_int("b%d" % i, "u8") for i in range(n)]
    chars = [48, 120] if prefix else []
    for b in bs:
        chars += [hexchar(z3.Extract(7, 4, b), upper), hexchar(z3.Extract(3, 0, b), upper)]
    r = call_from_json(ctx, jstr(eng, chars), "Address")
    if r is None:
        return
    ctx.require(r.variant == "Ok", "an address in hex (or whatever the bech32 decoder accepts) is accepted", shape="hex address rejected")
    if r.variant != "Ok":
        return
    a = models.deref(r.fields[0])
    ctx.require(a.variant == "Address", "an Address argument is produced", shape="address coerced to another argument kind")
    got = models.deref(a.fields[0])
    if isinstance(got, Opaque):
        ctx.require(got.fn == "bech32_bytes", "the bech32 payload is handed over unchanged")
        return
    got = got.items
    ctx.require(len(got) == n, "byte count preserved", shape="hex address decoded to another length")
    if len(got) == n and n:
        ctx.require(z3.And(*[eng.to_bv(g, 8) == b for g, b in zip(got, bs)]), "hex decodes to the bytes it encodes", shape="hex address decoded wrongly")


def _envelope_model(ctx, cs, enc):
    """serde_json::from_value::<BytesEnvelope>: derive-generated; contract = Ok(envelope) | Err"""
    eng = ctx.eng

    def m(eng_, a, c=None):
        if eng_.choose(2, "the JSON object is a BytesEnvelope") == 1:
            return err(Opaque("serde_json_error"))
        q, d = eng_.tdef("BytesEnvelope", "struct")
        vals = dict(content=StrM(list(cs), True), content_type=eng_.mk_variant("BytesEncoding", enc, [], "interop"))
        return ok(Agg(q, None, 0, [vals[f] for f in d[2]]))
    return m


def h_bytes_envelope(ctx, tier, seed):
    """bytes given as a {content, encoding} object: hex content of 0..2 bytes decodes exactly,
    ill-formed content of 0..4 printable characters is an error, never a panic"""
    eng = ctx.eng
    enc = ["Hex", "Base64"][eng.choose(2, "encoding")]
    wellformed = eng.choose(2, "well-formed hex content") == 1 and enc == "Hex"
    if wellformed:
        n = eng.choose(3, "byte count")
        bs = [ctx.sym_int("b%d" % i, "u8") for i in range(n)]
        cs = []
        for b in bs:
            cs += [hexchar(z3.Extract(7, 4, b), False), hexchar(z3.Extract(3, 0, b), False)]
    else:
        n = eng.choose(5, "content length")
        cs = [ctx.sym_int("c%d" % i, "u8") for i in range(n)]
        for c in cs:
            printable(eng, c)
    eng.models["from_value"] = _envelope_model(ctx, cs, enc)
    obj = eng.mk_variant("Value", "Object", [Opaque("json_object")])
    r = call_from_json(ctx, obj, "Bytes")
    if r is None:
        return
    ctx.require(True, "from_json returns")
    if wellformed and r.variant == "Ok":
        got = models.deref(models.deref(r.fields[0]).fields[0]).items
        ctx.require(len(got) == n and (n == 0 or z3.And(*[eng.to_bv(g, 8) == b for g, b in zip(got, bs)])), "the envelope's hex content decodes to the bytes it encodes", shape="envelope bytes decoded wrongly")
    if r.variant == "Ok" and enc == "Hex" and not wellformed:
        import models_str as S
        hexd = lambda c: S.is_hex(eng, c)
        bare = z3.And(n % 2 == 0, *[hexd(c) for c in cs]) if n else z3.BoolVal(True)
        pref = z3.And(n % 2 == 0, cs[0] == 48, cs[1] == 120, *[hexd(c) for c in cs[2:]]) if n >= 2 else z3.BoolVal(False)
        ctx.require(z3.Or(bare, pref), "envelope content accepted as hex is hex", shape="ill-formed envelope content accepted")


def h_kinds(ctx, tier, seed):
    """every JSON value kind x every target type: Ok or Err; Ok only for a documented pairing"""
    eng = ctx.eng
    num = ctx.sym_int("num", "i128")
    eng.assume(z3.And(num >= -(1 << 63), num < (1 << 64)))
    b = ctx.sym_bool("b")
    kinds = [("null", eng.mk_variant("Value", "Null", [])), ("bool", eng.mk_variant("Value", "Bool", [b])), ("number", jnum(eng, num)),
             ("array", eng.mk_variant("Value", "Array", [VecM([])])), ("string", jstr(eng, list(b"00")))]
    targets = ["Undefined", "Unit", "Int", "Bool", "Bytes", "Address", "Utxo", "UtxoRef", "AnyAsset", "List", "Map"]
    k = eng.choose(len(kinds), "value kind")
    t = targets[eng.choose(len(targets), "target type")]
    r = call_from_json(ctx, kinds[k][1], t)
    if r is None:
        return
    kind = kinds[k][0]
    allowed = {("bool", "Undefined"), ("number", "Undefined"), ("string", "Undefined"), ("number", "Int"), ("string", "Int"), ("bool", "Bool"),
               ("number", "Bool"), ("string", "Bytes"), ("string", "Address")}
    if r.variant == "Ok":
        ctx.require((kind, t) in allowed, "a %s is accepted for target type %s only where documented" % (kind, t), shape="%s accepted as %s" % (kind, t))
        a = models.deref(r.fields[0])
        if (kind, t) == ("number", "Bool"):
            ctx.require(z3.Or(num == 0, num == 1), "only 0 and 1 are booleans", shape="number other than 0/1 accepted as bool")
            ctx.require(z3b(a.fields[0]) == (num == 1), "0 is false and 1 is true", shape="0/1 mapped to the wrong boolean")
        if (kind, t) in (("number", "Int"), ("number", "Undefined")):
            ctx.require(z3.And(a.variant == "Int", eng.to_bv(a.fields[0], 128) == num), "a JSON integer is the Int it denotes", shape="JSON number coerced to another integer")
        if (kind, t) == ("bool", "Bool") or (kind, t) == ("bool", "Undefined"):
            ctx.require(z3.And(a.variant == "Bool", z3b(a.fields[0]) == b), "a JSON boolean is itself", shape="JSON boolean flipped")
    else:
        ctx.require((kind, t) not in (allowed - {("number", "Bool")}), "a documented pairing (%s as %s) is accepted" % (kind, t), shape="%s rejected as %s" % (kind, t))


HARNESSES += [
    _h("c16_address", h_address, "address as hex of 0..3 symbolic bytes (bare / 0x, both cases); bech32 decoder uninterpreted"),
    _h("c16_bytes_envelope", h_bytes_envelope, "{content, encoding} object: hex content of 0..2 symbolic bytes; any content of 0..4 printable characters x {hex, base64}; serde derive = Ok(envelope)|Err"),
    _h("c16_value_kinds", h_kinds, "JSON kinds {null, bool, number in [i64::MIN, u64::MAX], array, string} x 11 target types"),
]


def h_non_ascii(ctx, tier, seed):
    """text with multi-byte UTF-8 characters at every offset 0..3 (2-, 3- and 4-byte characters,
    optionally behind ASCII characters) for every textual target type and as envelope content:
    Ok or Err, never a panic (slicing a str off a char boundary panics)"""
    eng = ctx.eng
    chars = [[0xC3, 0xA9], [0xE2, 0x82, 0xAC], [0xF0, 0x9F, 0x98, 0x80]]      # é, €, an emoji
    ch = chars[eng.choose(3, "character")]
    npre = eng.choose(4, "ASCII characters before it")
    pre = [ctx.sym_int("c%d" % i, "u8") for i in range(npre)]
    for c in pre:
        printable(eng, c)
    s = pre + ch
    target = ["Int", "Bytes", "Address", "UtxoRef", "Bool", "Undefined"][eng.choose(6, "target type")]
    r = call_from_json(ctx, jstr(eng, s), target)
    if r is None:
        return
    ctx.require(True, "from_json returns")
    if r.variant == "Ok" and target not in ("Undefined", "Address"):
        ctx.violation("text with a non-ASCII character accepted as %s" % target, shape="ill-formed %s text accepted" % target.lower())


HARNESSES.append(_h("c16_non_ascii", h_non_ascii, "0..3 printable ASCII characters followed by a 2-, 3- or 4-byte UTF-8 character x 6 target types"))


def h_request_illformed(ctx, tier, seed):
    """a declared parameter supplied with an ill-formed value - under args or under env - makes the
    request fail; it is never parsed into a request that silently lacks the parameter"""
    eng = ctx.eng; T = TIR(eng)
    from harness.c06 import leaf, out
    tx = mk_tx(T, fees=leaf(T, "quantity"), outputs=[out(T, datum=leaf(T, "flag_b"))])
    models.deref_box(models.deref(tx.fields[eng.tdef("Tx", "struct")[1][2].index("outputs")]).items[0].fields[1].fields[0]).fields[1] = T.v("Type", "Bool")
    dr = [n_ for n_ in eng.fns if n_ == "decode_root" or n_.endswith("::decode_root")][0]
    eng.overrides[dr] = lambda e, a: ok(models.vclone(e, tx))
    bad_key = ["quantity", "flag_b"][eng.choose(2, "which parameter is ill-formed")]
    where = eng.choose(2, "ill-formed value under args / env")
    bad_val = {"quantity": [jstr(eng, list(b"12x")), eng.mk_variant("Value", "Null", []), eng.mk_variant("Value", "Bool", [True])],
               "flag_b": [jnum(eng, 2), jstr(eng, list(b"yes")), eng.mk_variant("Value", "Null", [])]}[bad_key][eng.choose(3, "ill-formed value")]
    good = {"quantity": jnum(eng, 5), "flag_b": jstr(eng, list(b"true"))}
    other = [k for k in good if k != bad_key][0]
    other_in_env = eng.choose(2, "the well-formed parameter under env") == 1
    a_entries, e_entries = [], []
    (a_entries if where == 0 else e_entries).append([StrM(bad_key, True), True, bad_val])
    (e_entries if other_in_env else a_entries).append([StrM(other, True), True, good[other]])
    q, d = eng.tdef("TirEnvelope", "struct", hint="spec")
    tvals = dict(content=StrM("00", True), encoding=eng.mk_variant("BytesEncoding", "Hex", [], "interop"), version=StrM("v1beta0", True))
    env = Agg(q, None, 0, [tvals[f] for f in d[2]])
    rq, rd = eng.tdef("ResolveParams", "struct")
    req = Agg(rq, None, 0, [{"args": MapM("BTreeMap", a_entries), "tir": env, "env": some(MapM("BTreeMap", e_entries))}[f] for f in rd[2]])
    try:
        r = models.deref(eng.call_fn(eng.find(short="parse_resolve_request"), [req]))
    except Panic as p:
        eng.stats.panic_paths += 1
        ctx.violation("parse_resolve_request panicked: %s" % p.kind, site=p.site, shape="request parsing panics")
        return
    ctx.require(r.variant == "Err", "an ill-formed value for declared parameter %s under %s is rejected" % (bad_key, "args" if where == 0 else "env"),
                shape="ill-formed %s value accepted or dropped silently" % ("args" if where == 0 else "env"))


HARNESSES.append(_h("c16_request_illformed", h_request_illformed, "2 declared parameters; one of them with 3 ill-formed values, under args or env; the other well-formed under args or env"))
