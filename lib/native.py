"""native oracle / replayer (the /verif/replay binary, built from /repo's current tree with the
hook cfg)"""
import json, os, shutil, subprocess
from common import VERIF, CACHE, REPO, env_offline

BIN = os.path.join(CACHE, "replay-target", "release", "tx3-verif-replay")
_built = [False]


def build():
    if _built[0]:
        return
    d = os.path.join(VERIF, "replay")
    shutil.copy(os.path.join(REPO, "Cargo.lock"), os.path.join(d, "Cargo.lock"))
    env = env_offline()
    env["RUSTFLAGS"] = "--cfg tx3_verif"
    env["CARGO_TARGET_DIR"] = os.path.join(CACHE, "replay-target")
    p = subprocess.run(["cargo", "build", "--release", "--offline"], cwd=d, env=env, capture_output=True, text=True)
    if p.returncode != 0:
        raise RuntimeError("native replay binary does not build: " + p.stderr[-600:])
    _built[0] = True


def run(cases):
    build()
    p = subprocess.run([BIN], input=json.dumps(cases), capture_output=True, text=True, timeout=300)
    if p.returncode != 0:
        raise RuntimeError("native replay failed: " + p.stderr[-400:])
    return json.loads(p.stdout)
