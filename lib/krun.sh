#!/bin/bash
# usage: krun.sh <harness> <timeout_s> [target-dir]
# runs one Kani harness under a time and memory cap; prints the verdict line
h=$1; t=${2:-300}; td=${3:-/verif/.cache/kani-target}
mkdir -p /verif/.cache/klogs
export CARGO_NET_OFFLINE=true
cd /verif/kani
( ulimit -v 14000000; timeout $t cargo kani -Z stubbing --target-dir $td --harness $h > /verif/.cache/klogs/$h.log 2>&1 ); rc=$?
v=$(grep -E "^VERIFICATION:-" /verif/.cache/klogs/$h.log | head -1)
tm=$(grep -E "^Verification Time" /verif/.cache/klogs/$h.log | head -1)
echo "$h rc=$rc $v $tm"
