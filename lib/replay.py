"""Native replay of counterexamples (DESIGN.md §2.6)."""
import os, re, json, shutil, subprocess, sys
from common import VERIF, CACHE, REPO, env_offline


def replay_kani(harness, timeout_s=900):
    """Concrete playback: ask Kani for the counterexample's concrete values, materialise them
    as a unit test in a scratch copy of the harness crate and run that test *natively* against
    /repo (dev profile).  True: the failure reproduces; False: it does not; None: the playback
    machinery itself failed (treated as inconclusive by the caller)."""
    src = os.path.join(VERIF, "kani")
    dst = os.path.join(CACHE, "kani-playback")
    shutil.rmtree(dst, ignore_errors=True)
    shutil.copytree(src, dst, ignore=shutil.ignore_patterns("target"))
    env = env_offline()
    tgt = os.path.join(CACHE, "kani-target")
    cmd = ["cargo", "kani", "-Z", "stubbing", "-Z", "concrete-playback", "--concrete-playback=inplace",
           "--target-dir", tgt, "--harness", harness]
    try:
        p = subprocess.run(cmd, cwd=dst, env=env, capture_output=True, text=True, timeout=timeout_s)
    except subprocess.TimeoutExpired:
        return None
    tests = []
    for root, _, files in os.walk(os.path.join(dst, "src")):
        for f in files:
            t = open(os.path.join(root, f)).read()
            tests += re.findall(r"fn (kani_concrete_playback_%s_\w+)" % harness, t)
    if not tests:
        return None
    try:
        # one playback test is generated per failed check *and* per satisfied cover property:
        # run them all (name prefix filter); the failure reproduces if any of them fails natively
        p = subprocess.run(["cargo", "kani", "playback", "-Z", "concrete-playback", "--", "kani_concrete_playback_%s_" % harness],
                           cwd=dst, env=env, capture_output=True, text=True, timeout=timeout_s)
    except subprocess.TimeoutExpired:
        return None
    out = p.stdout + p.stderr
    with open(os.path.join(CACHE, "replay", "playback_%s.log" % harness), "w") as fh:
        fh.write(out)
    if re.search(r"test result: FAILED|panicked at", out):
        return True
    if re.search(r"test result: ok\. [1-9]\d* passed", out):
        return False
    return None


def replay_case(path):
    c = json.load(open(path))
    case = c.get("case") or {}
    if case.get("engine") == "kani":
        r = replay_kani(case["harness"])
        print("replay:", {True: "reproduced", False: "did NOT reproduce", None: "playback machinery failed"}[r])
        return 1 if r else (0 if r is False else 2)
    if case.get("engine") == "mirsym":
        import mreplay
        return mreplay.replay(c)
    print("unknown case format")
    return 2
