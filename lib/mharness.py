"""Engine M driver: runs the mirsym harnesses registered for a property."""
import os, sys, time, importlib, json, traceback
sys.path.insert(0, os.path.join(os.path.dirname(os.path.dirname(os.path.abspath(__file__))), "mirsym"))
sys.path.insert(0, os.path.dirname(os.path.dirname(os.path.abspath(__file__))))
import z3
from common import Finding
import mirdump
from values import Unmodelled, StepLimit, Panic, Infeasible

_engines = {}


def engine_for(crates, overflow="on"):
    key = (tuple(sorted(crates)), overflow)
    if key not in _engines:
        from engine import Engine
        files = {c: mirdump.dump(c, overflow) for c in crates}
        _engines[key] = Engine(files)
        _engines[key].mir_files = files
    return _engines[key]


class Ctx:
    """what a harness sees: the engine plus obligation / finding helpers"""

    def __init__(s, eng, prop, hname):
        s.eng, s.prop, s.hname = eng, prop, hname
        s.findings = []
        s.samples = []
        s.named = {}        # name -> z3 term, for counterexample printing
        s.seen_shapes = set()
        s.oblig_names = {}

    def sym_int(s, name, ty="i128"):
        v = s.eng.fresh_int("%s!%s" % (s.hname, name), ty)
        s.named[name] = v
        return v

    def sym_bool(s, name):
        v = s.eng.fresh_bool("%s!%s" % (s.hname, name))
        s.named[name] = v
        return v

    def model_values(s, m):
        out = {}
        for k, t in s.named.items():
            try:
                v = m.eval(t, model_completion=True)
                if z3.is_bool(v):
                    out[k] = z3.is_true(v)
                else:
                    out[k] = v.as_signed_long() if k.endswith("_s") or True else v.as_long()
            except Exception:
                pass
        return out

    def require(s, cond, name, shape=None, site=None, extra=None, replay=None):
        """obligation `cond` under the current path condition; a counterexample becomes a finding"""
        s.oblig_names[name] = s.oblig_names.get(name, 0) + 1
        m = s.eng.check(cond, name)
        if m is None:
            if len(s.samples) < 3 and s.oblig_names[name] == 1:
                s.samples.append(dict(harness=s.hname, obligation=name, path_condition=[str(c)[:160] for c in s.eng.pc[:6]], result="unsat (holds on this path)"))
            return True
        shape = shape or name
        key = (site or name, shape)
        if key in s.seen_shapes:
            return False
        s.seen_shapes.add(key)
        vals = s.model_values(m)
        case = dict(engine="mirsym", harness=s.hname, obligation=name, inputs=vals, extra=extra)
        f = Finding(s.prop, s.hname, site or name, shape, detail="inputs=%s" % json.dumps(vals, default=str)[:400], case=case)
        if replay is not None:
            try:
                f.replayed = replay(vals)
            except Exception as e:  # replay machinery failure is not a verdict
                f.replayed = None
                f.detail += " [replay error: %s]" % e
        s.findings.append(f)
        return False

    def violation(s, name, shape=None, site=None, extra=None, replay=None):
        """a violation that holds on the whole current path (e.g. a feasible panic path)"""
        return s.require(False, name, shape, site, extra, replay)


def run(prop, tier, seed, cov, findings, inconclusive, assumptions, only=None):
    try:
        mod = importlib.import_module("harness.%s" % prop.lower())
    except ModuleNotFoundError as e:
        if "harness." in str(e):
            return
        raise
    used_models = {}
    fns_exec = {}
    for h in mod.HARNESSES:
        if tier == "quick" and h.get("tier", "quick") != "quick":
            continue
        if only and h["name"] not in only.split(","):
            continue
        t0 = time.time()
        eng = engine_for(h["crates"], h.get("overflow", "on"))
        from engine import Stats
        eng.stats = Stats()
        eng.map_order = h.get("map_order", "fixed")
        eng.max_steps = h.get("max_steps", 400000)
        ctx = Ctx(eng, prop, h["name"])
        status, why = "ok", ""
        try:
            eng.run(lambda e: h["fn"](ctx, tier, seed), max_paths=h.get("max_paths", 20000),
                    time_limit=h.get("time_limit_%s" % tier, h.get("time_limit", 600)))
        except Unmodelled as e:
            status, why = "inconclusive", "UNMODELLED %s" % e
        except StepLimit as e:
            status, why = "inconclusive", str(e)
        except RecursionError as e:
            status, why = "inconclusive", "recursion limit"
        st = eng.stats
        if status == "ok" and st.paths == 0:
            status, why = "inconclusive", "vacuous: no feasible path completed"
        if status == "ok" and st.obligations == 0 and not h.get("no_obligations_ok"):
            status, why = "inconclusive", "vacuous: no obligation reached"
        if status == "inconclusive":
            inconclusive.append("M harness %s: %s" % (h["name"], why))
        cov["harnesses"].append(dict(engine="M", harness=h["name"], status=status, why=why, paths=st.paths, pruned=st.pruned,
                                     decisions=st.decisions, panic_paths=st.panic_paths, obligations=st.obligations,
                                     discharged=st.discharged, queries=st.queries, solver_s=round(st.solver_s, 2),
                                     mir_steps=st.steps, wall_s=round(time.time() - t0, 2), bounds=h["bounds"],
                                     functions=sorted(st.fns_executed)[:60], models=sorted(st.models_used), map_order=eng.map_order))
        cov["states"] += st.paths
        cov["transitions"] += st.decisions + st.paths
        cov["queries"] += st.queries
        cov["solver_s"] += st.solver_s
        cov["obligations"] += st.obligations
        cov["discharged"] += st.discharged
        cov["bounds"].append("%s: %s" % (h["name"], h["bounds"]))
        for f in sorted(st.fns_executed):
            if f not in cov["functions_encoded"]:
                cov["functions_encoded"].append(f)
        for m in st.models_used:
            used_models[m] = 1
        for smp in ctx.samples:
            if len(cov["samples"]) < 10:
                cov["samples"].append(dict(engine="M", **smp))
        for f in ctx.findings:
            findings.append(f)
            if f.replayed:
                cov["traces_validated_against_impl"] += 1
    if used_models:
        cov["trusted_base"] += ["mirsym MIR interpreter (z3 %s)" % z3.get_version_string(), "std models: " + ", ".join(sorted(used_models))]
        assumptions.append("engine M interprets rustc's MIR of the repository (dumped from the current working tree, overflow-checks=on unless stated); standard-library calls are models listed under trusted_base; hash containers are bounded association lists with symbolic presence")
    for a in getattr(mod, "ASSUMPTIONS", []):
        assumptions.append(a)
