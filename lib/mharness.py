"""Engine M driver: runs the mirsym harnesses registered for a property."""
import os, sys, time, importlib, json, traceback
sys.path.insert(0, os.path.join(os.path.dirname(os.path.dirname(os.path.abspath(__file__))), "mirsym"))
sys.path.insert(0, os.path.dirname(os.path.dirname(os.path.abspath(__file__))))
import z3
from common import Finding
import mirdump
from values import Unmodelled, StepLimit, Panic, Infeasible

_engines = {}


def engine_for(crates, overflow="on"):
    key = (tuple(sorted(crates)), overflow)
    if key not in _engines:
        from engine import Engine
        files = {c: mirdump.dump(c, overflow) for c in crates}
        _engines[key] = Engine(files)
        _engines[key].mir_files = files
    return _engines[key]


class Ctx:
    """what a harness sees: the engine plus obligation / finding helpers"""

    def __init__(s, eng, prop, hname, tier="quick"):
        s.eng, s.prop, s.hname, s.tier = eng, prop, hname, tier
        s.findings = []
        s.samples = []
        s.named = {}        # name -> z3 term, for counterexample printing
        s.unsigned = set()
        s.seen_shapes = set()
        s.oblig_names = {}

    def sym_int(s, name, ty="i128"):
        v = s.eng.fresh_int("%s!%s" % (s.hname, name), ty)
        s.named[name] = v
        return v

    def sym_amount(s, name, bits=62):
        """a non-negative i128 amount below 2^bits, encoded as a zero-extended narrow vector so
        that the solver sees the constant upper bits (same claim as `0 <= x < 2^bits`)"""
        v = z3.BitVec("%s!%s" % (s.hname, name), bits)
        s.named[name] = v
        s.unsigned.add(name)
        return z3.ZeroExt(128 - bits, v)

    def sym_bool(s, name):
        v = s.eng.fresh_bool("%s!%s" % (s.hname, name))
        s.named[name] = v
        return v

    def model_values(s, m):
        out = {}
        for k, t in s.named.items():
            try:
                v = m.eval(t, model_completion=True)
                if z3.is_bool(v):
                    out[k] = z3.is_true(v)
                else:
                    out[k] = v.as_long() if k in s.unsigned else v.as_signed_long()
            except Exception:
                pass
        return out

    def require(s, cond, name, shape=None, site=None, extra=None, replay=None):
        """obligation `cond` under the current path condition; a counterexample becomes a finding"""
        s.oblig_names[name] = s.oblig_names.get(name, 0) + 1
        m = s.eng.check(cond, name)
        if m is None:
            if len(s.samples) < 3 and s.oblig_names[name] == 1:
                s.samples.append(dict(harness=s.hname, obligation=name, path_condition=[str(c)[:160] for c in s.eng.pc[:6]], result="unsat (holds on this path)"))
            return True
        shape = shape or name
        key = (site or name, shape)
        if key in s.seen_shapes:
            return False
        s.seen_shapes.add(key)
        vals = s.model_values(m)
        case = dict(engine="mirsym", harness=s.hname, obligation=name, inputs=vals, extra=extra)
        f = Finding(s.prop, s.hname, site or name, shape, detail="inputs=%s" % json.dumps(vals, default=str)[:400], case=case)
        hook = getattr(s, "replay_hook", None)
        only = getattr(s, "replayable_shapes", None)
        if replay is None and hook is not None and (only is None or shape in only):
            # generic native replay: the harness registered how to run the last call natively under a model
            replay = lambda _vals: hook(m)
        if replay is not None:
            try:
                f.replayed = replay(vals)
            except Exception as e:  # replay machinery failure is not a verdict
                f.replayed = None
                f.detail += " [replay error: %s]" % e
        s.findings.append(f)
        return False

    def violation(s, name, shape=None, site=None, extra=None, replay=None):
        """a violation that holds on the whole current path (e.g. a feasible panic path)"""
        return s.require(False, name, shape, site, extra, replay)


def selftest_cached(seed):
    import hashlib, glob, json
    h = hashlib.sha256()
    for c in ("tx3-tir", "tx3-cardano", "tx3-resolver", "tx3-lang"):
        h.update(mirdump.src_hash(c, "on").encode())
    V = os.path.dirname(os.path.dirname(os.path.abspath(__file__)))
    for f in sorted(glob.glob(os.path.join(V, "mirsym", "*.py")) + glob.glob(os.path.join(V, "lib", "selftest.py")) + glob.glob(os.path.join(V, "replay", "src", "*.rs")) + glob.glob(os.path.join(V, "corpus", "*.tx3")) + glob.glob(os.path.join(V, "harness", "*.py"))):
        h.update(open(f, "rb").read())
    key = h.hexdigest()[:16]
    path = os.path.join(V, ".cache", "selftest.%s.json" % key)
    if os.path.exists(path):
        r = json.load(open(path))
        r["cached"] = True
        return r
    import selftest
    try:
        r = selftest.run_all(seed)
    except Exception as e:
        r = dict(vectors=0, disagreements=[("selftest crashed", "%s: %s" % (type(e).__name__, str(e)[:300]))], wall_s=0)
    if not any("selftest crashed" in str(d) for d in r["disagreements"]):      # a crash of the machinery is not a result to keep
        json.dump(r, open(path, "w"), default=str)
    return r


def run_one(prop, hname, tier, seed):
    """run one harness in this process -> picklable result"""
    mod = importlib.import_module("harness.%s" % prop.lower())
    h = [x for x in mod.HARNESSES if x["name"] == hname][0]
    t0 = time.time()
    eng = engine_for(h["crates"], h.get("overflow", "on"))
    from engine import Stats
    eng.stats = Stats()
    eng.map_order = h.get("map_order", "fixed")
    eng.max_steps = h.get("max_steps", 400000)
    eng.overrides = {}
    ctx = Ctx(eng, prop, h["name"], tier)
    status, why = "ok", ""
    try:
        eng.run(lambda e: h["fn"](ctx, tier, seed), max_paths=h.get("max_paths", 20000),
                time_limit=h.get("time_limit_%s" % tier, h.get("time_limit", 600)))
    except Unmodelled as e:
        status, why = "inconclusive", "UNMODELLED %s" % e
    except StepLimit as e:
        status, why = "inconclusive", str(e)
    except RecursionError as e:
        status, why = "inconclusive", "recursion limit"
    except Panic as e:
        status, why = "inconclusive", "uncaught panic path in harness: %s" % e
    st = eng.stats
    if status == "ok" and st.paths == 0:
        status, why = "inconclusive", "vacuous: no feasible path completed"
    if status == "ok" and st.obligations == 0 and not h.get("no_obligations_ok"):
        status, why = "inconclusive", "vacuous: no obligation reached"
    return dict(name=h["name"], status=status, why=why, paths=st.paths, pruned=st.pruned, decisions=st.decisions,
                panic_paths=st.panic_paths, obligations=st.obligations, discharged=st.discharged, queries=st.queries,
                solver_s=st.solver_s, steps=st.steps, wall_s=time.time() - t0, bounds=h["bounds"],
                fns=sorted(st.fns_executed), models=sorted(st.models_used), map_order=eng.map_order,
                xcheck=dict(checked=st.xchecked, agree=st.xagree, undecided=st.xtimeout, disagree=list(st.xdisagree), not_exportable=getattr(st, "xskipped", 0)),
                samples=ctx.samples,
                findings=[dict(prop=f.prop, harness=f.harness, site=f.site, shape=f.shape, detail=f.detail, case=f.case, replayed=f.replayed) for f in ctx.findings])


def _worker(args):
    try:
        return run_one(*args)
    except Exception as e:       # a crash of the machinery is inconclusive, never a verdict
        return dict(name=args[1], status="inconclusive", why="harness crashed: %s: %s" % (type(e).__name__, str(e)[:300]), paths=0, pruned=0,
                    decisions=0, panic_paths=0, obligations=0, discharged=0, queries=0, solver_s=0.0, steps=0, wall_s=0.0,
                    bounds="", fns=[], models=[], map_order="", samples=[], findings=[])


def run(prop, tier, seed, cov, findings, inconclusive, assumptions, only=None):
    try:
        mod = importlib.import_module("harness.%s" % prop.lower())
    except ModuleNotFoundError as e:
        if "harness." in str(e):
            return
        raise
    hs = [h for h in mod.HARNESSES if (tier == "thorough" or h.get("tier", "quick") == "quick") and (not only or h["name"] in only.split(","))]
    if not hs:
        return
    # dump the MIR once (in this process) so that the workers find it cached
    for h in hs:
        for c in h["crates"]:
            mirdump.dump(c, h.get("overflow", "on"))
    jobs = int(os.environ.get("MIRSYM_JOBS", "12"))
    args = [(prop, h["name"], tier, seed) for h in hs]
    if jobs > 1 and len(hs) > 1:
        import multiprocessing as mp
        with mp.get_context("fork").Pool(min(jobs, len(hs))) as pool:
            results = pool.map(_worker, args, chunksize=1)
    else:
        results = [_worker(a) for a in args]
    used_models = {}
    for r in results:
        if r["status"] == "inconclusive":
            inconclusive.append("M harness %s: %s" % (r["name"], r["why"]))
        cov["harnesses"].append(dict(engine="M", harness=r["name"], status=r["status"], why=r["why"], paths=r["paths"], pruned=r["pruned"],
                                     decisions=r["decisions"], panic_paths=r["panic_paths"], obligations=r["obligations"],
                                     discharged=r["discharged"], queries=r["queries"], solver_s=round(r["solver_s"], 2),
                                     mir_steps=r["steps"], wall_s=round(r["wall_s"], 2), bounds=r["bounds"],
                                     functions=r["fns"][:60], models=r["models"], map_order=r["map_order"]))
        cov["states"] += r["paths"]
        cov["transitions"] += r["decisions"] + r["paths"]
        cov["queries"] += r["queries"]
        cov["solver_s"] += r["solver_s"]
        xc = r.get("xcheck") or {}
        cx = cov.setdefault("solver_cross_check", dict(solver="cvc5 (SMT-LIB2 export of the z3 query: path condition + negated obligation)", obligations_rechecked=0, agree=0, undecided=0, not_exportable=0, disagree=[]))
        cx["obligations_rechecked"] += xc.get("checked", 0); cx["agree"] += xc.get("agree", 0); cx["undecided"] += xc.get("undecided", 0); cx["not_exportable"] += xc.get("not_exportable", 0); cx["disagree"] += xc.get("disagree", [])
        if xc.get("disagree"):
            inconclusive.append("M harness %s: z3 and cvc5 disagree on %d obligation(s), e.g. %s" % (r["name"], len(xc["disagree"]), xc["disagree"][0]))
        cov["obligations"] += r["obligations"]
        cov["discharged"] += r["discharged"]
        cov["bounds"].append("%s: %s" % (r["name"], r["bounds"]))
        for f in r["fns"]:
            if f not in cov["functions_encoded"]:
                cov["functions_encoded"].append(f)
        for m in r["models"]:
            used_models[m] = 1
        for smp in r["samples"]:
            if len(cov["samples"]) < 10:
                cov["samples"].append(dict(engine="M", **smp))
        for f in r["findings"]:
            ff = Finding(f["prop"], f["harness"], f["site"], f["shape"], f["detail"], f["case"], f["replayed"])
            findings.append(ff)
            if ff.replayed:
                cov["traces_validated_against_impl"] += 1
    # translator validation: native vs. engine M in concrete mode (cached per source state)
    st = selftest_cached(seed)
    cov["selftest"] = dict(vectors=st["vectors"], disagreements=len(st["disagreements"]), cached=st.get("cached", False))
    cov["traces_validated_against_impl"] += st["vectors"] - len(st["disagreements"])
    if st["disagreements"]:
        inconclusive.append("engine M disagrees with the native code on %d selftest vector(s), e.g. %s" % (len(st["disagreements"]), str(st["disagreements"][0])[:300]))
    if used_models:
        cov["trusted_base"] += ["mirsym MIR interpreter (z3 %s)" % z3.get_version_string(), "std models: " + ", ".join(sorted(used_models))]
        assumptions.append("engine M interprets rustc's MIR of the repository (dumped from the current working tree, overflow-checks=on unless stated); standard-library calls are models listed under trusted_base; hash containers are bounded association lists with symbolic presence")
    for a in getattr(mod, "ASSUMPTIONS", []):
        assumptions.append(a)
