"""Translator validation (DESIGN §2.7): concrete vectors are pushed through the repository's real
functions natively (the replay binary) *and* through engine M executing the MIR with all inputs
concrete; the results must agree.  A disagreement means the interpreter or a model is wrong: every
check that uses engine M is inconclusive until it is fixed."""
import json, os, sys, random, time
sys.path.insert(0, os.path.join(os.path.dirname(os.path.dirname(os.path.abspath(__file__))), "mirsym"))
sys.path.insert(0, os.path.dirname(os.path.dirname(os.path.abspath(__file__))))
import native, mharness
from values import *
import models, tirload, tirdump


def _assets_value(eng, spec):
    from harness.hutil import cls_naked, cls_named, cls_defined
    ents = {}
    order = []
    for cls, amt in spec:
        k = json.dumps(cls)
        if k not in ents:
            order.append(k)
            ents[k] = [cls, 0]
        ents[k][1] += amt
    out = []
    for k in order:
        cls, amt = ents[k]
        if amt == 0:
            continue            # `+` of the native side prunes zero sums; build the same canonical value
        key = cls_naked() if cls == "naked" else (cls_named(cls[0]) if len(cls) == 1 else cls_defined(cls[0], cls[1]))
        out.append([key, True, amt])
    return Agg("CanonicalAssets", None, 0, [MapM("HashMap", out)])


def _assets_show(eng, v):
    m = models.deref(models.deref(v).fields[0])
    out = []
    for k, p, x in m.entries:
        if p is not True:
            continue
        k = models.deref(k)
        if k.variant == "Naked":
            name = "naked"
        elif k.variant == "Named":
            name = bytes(k.fields[0].items).hex()
        else:
            name = bytes(k.fields[0].items).hex() + "." + bytes(k.fields[1].items).hex()
        out.append([name, str(x)])
    return sorted(out)


def assets_vectors(seed, n=40):
    rnd = random.Random(seed)
    classes = ["naked", [[0xAA]], [[1] * 28, [0xAA]], [[2] * 28, [0xBB, 0xCC]]]
    pool = [0, 1, -1, 2, 5, 1000, -7, (1 << 62), -(1 << 62), 10 ** 18]
    vs = []
    for _ in range(n):
        def val():
            return [[rnd.choice(classes), rnd.choice(pool)] for _ in range(rnd.randint(0, 3))]
        vs.append((rnd.choice(["add", "sub", "neg", "contains_total", "contains_some", "is_empty", "is_empty_or_negative", "is_only_naked", "eq"]), val(), val()))
    return vs


def run_assets(eng, seed):
    vs = assets_vectors(seed)
    cases = [dict(cmd="assets", op=op, a=[[c, str(x)] for c, x in a], b=[[c, str(x)] for c, x in b]) for op, a, b in vs]
    nat = native.run(cases)
    bad, n = [], 0
    for (op, a, b), want in zip(vs, nat):
        got = [None]

        def h(e):
            A, B = _assets_value(e, a), _assets_value(e, b)
            try:
                if op in ("add", "sub"):
                    f = e.find(trait=op.capitalize(), self_ty="CanonicalAssets", method=op)
                    got[0] = _assets_show(e, e.call_fn(f, [A, B]))
                elif op == "neg":
                    got[0] = _assets_show(e, e.call_fn(e.find(trait="Neg", self_ty="CanonicalAssets", method="neg"), [A]))
                elif op == "eq":
                    got[0] = bool(e.call_fn(e.find(trait="PartialEq", self_ty="CanonicalAssets", method="eq"), [ref_to_value(A), ref_to_value(B)]))
                elif op in ("contains_total", "contains_some"):
                    got[0] = bool(e.call_fn(e.find(short="CanonicalAssets::" + op), [ref_to_value(A), ref_to_value(B)]))
                else:
                    got[0] = bool(e.call_fn(e.find(short="CanonicalAssets::" + op), [ref_to_value(A)]))
            except Panic:
                got[0] = {"panic": "assets"}
        eng.run(h)
        n += 1
        if got[0] != want:
            bad.append(("assets", op, a, b, got[0], want))
    return n, bad


def run_from_json(eng, seed):
    vecs = [("0x" + "00" * 15 + "2a", "Int"), ("0x" + "ff" * 16, "Int"), ("0x80" + "00" * 15, "Int"), ("12345", "Int"), ("-77", "Int"), ("+5", "Int"), ("12a", "Int"), ("", "Int"),
            ("0x12", "Int"), ("true", "Bool"), ("false", "Bool"), ("True", "Bool"), ("deadbeef", "Bytes"), ("0xdeadbeef", "Bytes"), ("0x0x12", "Bytes"), ("abc", "Bytes"), ("zz", "Bytes"),
            ("", "Bytes"), ("abcd#12", "UtxoRef"), ("abcd#", "UtxoRef"), ("abc#1", "UtxoRef"), ("#1", "UtxoRef"), ("abcd#+3", "UtxoRef"), ("abcd#-3", "UtxoRef"), ("ABCD#007", "UtxoRef")]
    cases = [dict(cmd="from_json", value=s, type=t) for s, t in vecs]
    nat = native.run(cases)
    bad, n = [], 0
    for (s, t), want in zip(vecs, nat):
        got = [None]

        def h(e):
            try:
                val = e.mk_variant("Value", "String", [StrM(s, True)])
                r = models.deref(e.call_fn(e.fns["from_json"], [val, ref_to_value(e.mk_variant("Type", t, []))]))
                if r.variant == "Ok":
                    d = tirdump.dump(e, r.fields[0], "ArgValue")
                    if isinstance(d, dict) and "Int" in d:
                        d = {"Int": str(d["Int"])}
                    got[0] = {"ok": d}
                else:
                    got[0] = {"err": "x"}
            except Panic:
                got[0] = {"panic": "from_json"}
        eng.run(h)
        n += 1
        w = want if "ok" in want or "panic" in want else {"err": "x"}
        if got[0] != w:
            bad.append(("from_json", s, t, got[0], want))
    return n, bad


def canon_json(j):
    if isinstance(j, dict):
        if set(j) == {"Assets"} and isinstance(j["Assets"], list):
            return {"Assets": sorted([canon_json(x) for x in j["Assets"]], key=lambda x: json.dumps(x, sort_keys=True))}
        return {k: canon_json(v) for k, v in j.items()}
    if isinstance(j, list):
        return [canon_json(x) for x in j]
    return j


def run_pipeline(eng, seed):
    from harness import c01
    from harness.hutil import TIR, utxo_ref, cls_naked, cls_defined
    rnd = random.Random(seed)
    bad, n = [], 0
    progs = sorted(c01.SPECS)
    cases, meta = [], []
    for prog in progs:
        j = c01.lowered(prog, 0)
        if "t" not in j or "error" in j["t"]:
            continue
        tirj = j["t"]
        holder = {}

        def probe(e):
            tx = tirload.load(e, tirj, "Tx")
            holder["params"] = tirdump.dump(e, e.call_fn(e.fns["find_params"], [ref_to_value(tx)]), "BTreeMap<String, Type>")
            holder["queries"] = list(tirdump.dump(e, e.call_fn(e.fns["find_queries"], [ref_to_value(tx)]), "BTreeMap<String, InputQuery>"))
        eng.run(probe)
        for rep in range(2):
            args = {}
            for p, ty in holder["params"].items():
                if ty == "Int":
                    args[p] = {"Int": rnd.choice([0, 1, 2, 3, 7, 1000, 5000000 + rnd.randint(0, 10 ** 6)])}
                elif ty == "Address":
                    args[p] = {"Address": c01.ADDR.get(p, [0x60] + [0xA1] * 28)}
                elif ty == "Bytes":
                    args[p] = {"Bytes": [rnd.randint(0, 255) for _ in range(3)]}
                else:
                    args[p] = {"Int": 1}
            inputs = {}
            for i, q in enumerate(holder["queries"]):
                datum = None
                if prog in ("p03_datum_spread",):
                    datum = {"Struct": {"constructor": 0, "fields": [{"Number": 5}, {"Bytes": [1, 2]}, {"Number": 9}]}}
                if prog in ("p09_record_order",):
                    datum = {"Struct": {"constructor": 0, "fields": [{"Number": 5}, {"Bytes": [1, 2]}, {"Number": 9}, {"Number": 11}]}}
                if prog in ("p12_nested_access",):
                    datum = {"Struct": {"constructor": 0, "fields": [{"List": [{"Number": 4}, {"Number": 5}, {"Number": 6}]}, {"Struct": {"constructor": 0, "fields": [{"Number": 1}, {"Bytes": [7]}]}}, {"Number": 2}]}}
                    args["idx"] = {"Int": rnd.choice([0, 1, 2])}
                # CanonicalAssets cannot travel as serde JSON (map keyed by an enum): list of pairs instead
                native_assets = [["naked", str(10 ** 7 + rnd.randint(0, 10 ** 6))]]
                if prog == "p02_asset_arith":
                    native_assets.append([[c01.POL, list(b"TOK")], str(10 ** 6)])
                    args.update(n={"Int": 5}, m={"Int": 2})
                m_assets = [["Naked" if c == "naked" else {"Defined": c}, int(a)] for c, a in native_assets]
                inputs[q] = [dict(ref=dict(txid=[i + 1] * 32, index=0), address=c01.ADDR["alice"], assets_list=native_assets, m_assets=m_assets, datum=datum)]
            fee = rnd.choice([0, 170000, 200000])
            cases.append(dict(cmd="pipeline", tir=tirj, args=args, inputs=inputs, fee=fee))
            meta.append((prog, tirj, args, inputs, fee))
    json.dump(cases, open(os.path.join(os.path.dirname(os.path.dirname(os.path.abspath(__file__))), ".cache", "selftest_pipeline_cases.json"), "w"))
    nat = native.run(cases)
    for (prog, tirj, args, inputs, fee), want in zip(meta, nat):
        got = [None]

        def h(e):
            T = TIR(e)
            tx = tirload.load(e, tirj, "Tx")
            am = MapM("BTreeMap", [[StrM(k, True), True, tirload.load(e, v, "ArgValue")] for k, v in args.items()])
            im = MapM("BTreeMap", [])
            for k, us in inputs.items():
                ents = []
                for u in us:
                    assets = Agg("CanonicalAssets", None, 0, [MapM("HashMap", [[tirload.load(e, a, "AssetClass"), True, b] for a, b in u["m_assets"]])])
                    uv = T.st("Utxo", ref=tirload.load(e, u["ref"], "UtxoRef"), address=VecM(u["address"]), assets=assets,
                              datum=some(tirload.load(e, u["datum"], "Expression")) if u["datum"] is not None else none(), script=none())
                    ents.append([uv, True, unit()])
                im.entries.append([StrM(k, True), True, MapM("HashSet", ents)])
            try:
                r, why = c01.pipeline(type("C", (), {"eng": e})(), tx, am, im, fee)
            except Panic as p:
                got[0] = {"panic": p.kind}
                return
            if r is None:
                got[0] = {"error": why[:60]}
                return
            body, aux = r
            bn = e.tdef("TransactionBody", "struct")[1][2]
            outs = [c01.decode_output(e, o) for o in models.deref(body.fields[bn.index("outputs")]).items]
            got[0] = [dict(address=bytes(o["address"]).hex(), coin=int(o["coin"]), assets=sorted([[bytes(k[0]).hex(), bytes(k[1]).hex(), int(v)] for k, v in o["assets"].items()])) for o in outs]
        eng.run(h)
        n += 1
        w = want
        if "body" in want and isinstance(want["body"], dict) and "outputs" in want["body"]:
            w = []
            for o in want["body"]["outputs"]:
                po = o.get("PostAlonzo", o)
                val = po["value"]
                coin, assets = (val["Coin"], []) if "Coin" in val else (val["Multiasset"][0], sorted([[pol, nm, int(q)] for pol, m in val["Multiasset"][1].items() for nm, q in m.items()]))
                w.append(dict(address=po["address"], coin=int(coin), assets=assets))
        elif "error" in want or ("body" in want and "error" in want["body"]):
            w = "error"
        if isinstance(got[0], dict) and "error" in got[0]:
            got[0] = "error"
        if got[0] != w:
            bad.append(("pipeline", prog, args, fee, got[0], w))
    return n, bad


def run_all(seed=0):
    t0 = time.time()
    total, bad = 0, []
    e1 = mharness.engine_for(["tx3-tir"])
    n, b = run_assets(e1, seed); total += n; bad += b
    e2 = mharness.engine_for(["tx3-resolver", "tx3-tir"])
    n, b = run_from_json(e2, seed); total += n; bad += b
    e3 = mharness.engine_for(["tx3-tir", "tx3-cardano"])
    n, b = run_pipeline(e3, seed); total += n; bad += b
    return dict(vectors=total, disagreements=bad, wall_s=round(time.time() - t0, 1))


if __name__ == "__main__":
    r = run_all(int(os.environ.get("VERIF_SEED", "0") or 0))
    print(json.dumps(dict(vectors=r["vectors"], disagreements=len(r["disagreements"]), wall_s=r["wall_s"])))
    for d in r["disagreements"][:10]:
        print("DISAGREE", d)
    sys.exit(1 if r["disagreements"] else 0)
