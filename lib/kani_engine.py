"""Engine K: run Kani proof harnesses of /verif/kani over /repo's current source."""
import os, re, subprocess, shutil, time
from common import VERIF, CACHE, REPO, env_offline, Finding

KDIR = os.path.join(VERIF, "kani")
TARGET = os.path.join(CACHE, "kani-target")


def _prepare():
    # Cargo.lock is regenerated from the repository's lock file so that offline resolution works
    shutil.copy(os.path.join(REPO, "Cargo.lock"), os.path.join(KDIR, "Cargo.lock"))


def run(harnesses, timeout_s, jobs=12, mem_kb=48_000_000, harness_timeout_s=900):
    """returns (results: {harness: dict}, raw_log_path, wall_s).
    status: 'ok' (SUCCESSFUL, all covers satisfied), 'failed' (with failed check list),
    'inconclusive' (timeout / OOM / ICE / unsatisfied cover / missing verdict)."""
    _prepare()
    os.makedirs(os.path.join(CACHE, "klogs"), exist_ok=True)
    log = os.path.join(CACHE, "klogs", "run_%d.log" % int(time.time() * 1000))
    cmd = ["cargo", "kani", "-Z", "stubbing", "-Z", "unstable-options", "--harness-timeout", str(harness_timeout_s),
           "--target-dir", TARGET, "-j", str(jobs), "--output-format", "terse"]
    for h in harnesses:
        cmd += ["--harness", h]
    t0 = time.time()
    sh = "ulimit -v %d; exec timeout %d %s" % (mem_kb, timeout_s, " ".join(cmd))
    with open(log, "w") as fh:
        p = subprocess.run(["bash", "-c", sh], cwd=KDIR, env=env_offline(), stdout=fh, stderr=subprocess.STDOUT)
    wall = time.time() - t0
    if p.returncode == 124:
        subprocess.run(["pkill", "-f", "cbmc.*kani-target"], check=False)
    text = open(log, errors="replace").read()
    res = parse(text, harnesses)
    for h in harnesses:
        if h not in res:
            why = "timeout after %ds" % timeout_s if p.returncode == 124 else "no verdict (rc=%d)" % p.returncode
            res[h] = dict(status="inconclusive", why=why, failed=[], checks=0, covers=(0, 0), time_s=None, stubs=[])
    return res, log, wall


def parse(text, harnesses):
    cur = {}       # thread -> harness
    stubs = {}
    res = {}
    lines = text.split("\n")
    i = 0
    active = None
    block = []

    def close(h, block):
        if h is None:
            return
        b = "\n".join(block)
        m = re.search(r"VERIFICATION:- (\w+)", b)
        if not m:
            return
        verdict = m.group(1)
        failed = []
        for fm in re.finditer(r'Failed Checks: (.*)\n File: "([^"]*)", line (\d+), in (\S+)', b):
            failed.append(dict(desc=fm.group(1).strip().strip('"'), file=fm.group(2), line=int(fm.group(3)), fn=fm.group(4)))
        cm = re.search(r"\*\* (\d+) of (\d+) failed", b)
        checks = int(cm.group(2)) if cm else 0
        cv = re.search(r"\*\* (\d+) of (\d+) cover properties satisfied", b)
        covers = (int(cv.group(1)), int(cv.group(2))) if cv else (0, 0)
        tm = re.search(r"Verification Time: ([0-9.]+)s", b)
        t = float(tm.group(1)) if tm else None
        status = "ok" if verdict == "SUCCESSFUL" else "failed"
        why = ""
        if verdict == "SUCCESSFUL" and covers[0] != covers[1]:
            status, why = "inconclusive", "vacuity witness failed: %d of %d cover properties satisfied" % covers
        if "CBMC timed out" in b:
            status, why = "inconclusive", "CBMC timed out (per-harness cap)"
        elif verdict == "FAILED" and not failed:
            status, why = "inconclusive", "FAILED without a failed check (OOM / solver error?)"
        if any("unwinding assertion" in f["desc"] for f in failed):
            status, why = "inconclusive", "unwinding assertion failed: bound too small"
        res[h] = dict(status=status, why=why, failed=failed, checks=checks, covers=covers, time_s=t, stubs=stubs.get(h, []))

    for ln in lines:
        m = re.match(r"Thread (\d+): Checking harness (\S+?)\.\.\.", ln)
        if m:
            cur[m.group(1)] = m.group(2).split("::")[-1]
            continue
        m = re.match(r"Thread (\d+):\s+- Stub: (.*)", ln)
        if m:
            stubs.setdefault(cur.get(m.group(1)), []).append(m.group(2).replace(" ", ""))
            continue
        m = re.match(r"Thread (\d+):\s*$", ln)
        if m:
            close(active, block)
            active, block = cur.get(m.group(1)), []
            continue
        m = re.match(r"Checking harness (\S+?)\.\.\.", ln)   # -j 1 format
        if m:
            close(active, block)
            active, block = m.group(1).split("::")[-1], []
            continue
        if ln.startswith("Manual Harness Summary") or ln.startswith("Thread "):
            close(active, block)
            active, block = None, []
            continue
        if active is not None:
            block.append(ln)
    close(active, block)
    return res


def findings_from(prop, res):
    out = []
    for h, r in res.items():
        if r["status"] != "failed":
            continue
        for f in r["failed"]:
            site = f["fn"] if not f["file"].startswith("src/") else "harness-oracle"
            # oracle failures are keyed by the assertion text; panics inside the repository by the
            # function that panics and the panic kind
            out.append(Finding(prop, h, site, f["desc"], detail="%s:%d" % (f["file"], f["line"]), case=dict(engine="kani", harness=h, failed_check=f)))
    return out
