"""Per-property harness tables (names are the ids used in evidence; DESIGN.md App. B)."""

# engine K: harness -> (functions of /repo encoded, bounds, stubs/assumptions)
K = {
    # ---- C09
    "c09_constr_tag_datum": dict(fns=["tx3_cardano::compile::compile_struct", "compile::plutus_data::constr"],
                                 bounds="constructor index: whole usize range; 0 fields", tier="quick"),
    "c09_constr_tag_redeemer": dict(fns=["<Expression as TryIntoData>::try_as_data", "<StructExpr as TryIntoData>::try_as_data", "plutus_data::constr"],
                                    bounds="constructor index: whole usize range; 0 fields", tier="quick"),
    "c09_int_datum": dict(fns=["compile::compile_data_expr", "<i128 as IntoData>::as_data"], bounds="x: whole i128 range; unwind 18 (16-byte magnitude)", tier="quick"),
    "c09_int_redeemer": dict(fns=["<Expression as TryIntoData>::try_as_data", "<i128 as IntoData>::as_data"], bounds="x: whole i128 range; unwind 18", tier="quick"),
    "c09_bool_unit": dict(fns=["compile_data_expr", "try_as_data", "<bool as IntoData>::as_data", "<() as IntoData>::as_data"], bounds="both booleans, unit", tier="quick"),
    "c09_bytes_leaf": dict(fns=["compile_data_expr", "try_as_data", "<Vec<u8> as IntoData>::as_data"], bounds="Bytes of every length 0..=5, content symbolic", tier="quick"),
    "c09_address_leaf": dict(fns=["compile_data_expr", "try_as_data"], bounds="Address bytes of every length 0..=5, content symbolic", tier="thorough"),
    "c09_hash_leaf": dict(fns=["try_as_data"], bounds="Hash bytes of every length 0..=5, content symbolic", tier="thorough"),
    # ---- C02
    "c02_lovelace_exact": dict(fns=["compile::compile_value", "compile::compile_ada_value", "coercion::expr_into_number"], bounds="amount: whole i128 range", tier="quick"),
    "c02_token_exact": dict(fns=["compile::compile_value", "compile::compile_native_asset_for_output", "compile::number_into_u64", "coercion::bytes_into_hash"], bounds="amount: whole i128 range; 28-byte policy, 3-byte name (concrete)", tier="quick"),
    "c02_mint_exact": dict(fns=["compile::compile_native_asset_for_mint"], bounds="amount: whole i128 range", tier="quick"),
    "c02_burn_exact": dict(fns=["compile::compile_native_asset_for_mint"], bounds="amount: whole i128 range", tier="quick"),
    "c02_validity_exact": dict(fns=["compile::compile_validity", "compile::number_into_u64"], bounds="since, until: whole i128 range", tier="quick"),
    "c02_validity_absent": dict(fns=["compile::compile_validity"], bounds="until: whole i128 range; since absent; no block", tier="quick"),
    "c02_metadata_int_exact": dict(fns=["coercion::expr_into_metadatum"], bounds="x: whole i128 range", tier="quick"),
    "c02_expr_into_number_exact": dict(fns=["coercion::expr_into_number"], bounds="x: whole i128 range", tier="quick"),
    "c02_aggregate_coin_exact": dict(fns=["compile::asset_math::try_aggregate_values"], bounds="two lovelace entries, each over the whole u64 range", tier="quick"),
    "c02_reduce_add_exact": dict(fns=["<Expression as Arithmetic>::add", "<i128 as Arithmetic>::add"], bounds="x, y: whole i128 range (debug profile: overflow checks on)", tier="quick"),
    "c02_reduce_neg_exact": dict(fns=["<Expression as Arithmetic>::neg", "<i128 as Arithmetic>::neg"], bounds="x: whole i128 range", tier="quick"),
    "c02_reduce_none_is_zero": dict(fns=["<Expression as Arithmetic>::add/sub"], bounds="x: i128 without MIN; None on either side", tier="quick"),
    # ---- C05
    "c05_size_fee_linear": dict(fns=["ops::eval_size_fees"], bounds="len <= 16384, coefficient <= 1000, constant <= 10^6, extra in {None, Some(<= 2^40)}", tier="quick",
                                stubs=["std::hash::RandomState::new (only to construct an empty cost-model map)"]),
    "c05_slot_to_time_affine": dict(fns=["ops::slot_to_time"], bounds="slot, cursor slot, timestamp < 2^64", tier="quick"),
    "c05_time_to_slot_affine": dict(fns=["ops::time_to_slot"], bounds="time, cursor slot, timestamp < 2^32", tier="thorough"),
    # ---- C14
    "c14_bytes_into_hash28": dict(fns=["coercion::bytes_into_hash::<28>"], bounds="length 0..=33 symbolic, content symbolic", tier="quick"),
    "c14_bytes_into_hash32": dict(fns=["coercion::bytes_into_hash::<32>"], bounds="length 0..=33 symbolic", tier="quick"),
    "c14_policy_len_output": dict(fns=["compile::compile_native_asset_for_output"], bounds="policy length 0..=33 symbolic", tier="quick"),
    "c14_policy_len_mint": dict(fns=["compile::compile_native_asset_for_mint"], bounds="policy length 0..=33 symbolic", tier="quick"),
    "c14_hash28_bytes": dict(fns=["coercion::expr_into_hash::<28>"], bounds="Bytes length 0..=33 symbolic", tier="quick"),
    "c14_hash28_hash": dict(fns=["coercion::expr_into_hash::<28>"], bounds="Hash length 0..=33 symbolic", tier="thorough"),
    "c14_hash32_bytes": dict(fns=["coercion::expr_into_hash::<32>"], bounds="Bytes length 0..=33 symbolic", tier="quick"),
    "c14_keyhash_len": dict(fns=["coercion::expr_into_address_keyhash"], bounds="Bytes length 0..=33 symbolic", tier="quick"),
    "c14_script_address_len": dict(fns=["coercion::policy_into_address"], bounds="policy length 0..=33 symbolic, both networks", tier="quick",
                                   stubs=["ByronAddress::to_vec"]),
    "c14_int_total": dict(fns=["compile::compile_data_expr", "<i128 as IntoData>::as_data"], bounds="x: whole i128 range", tier="quick"),
    "c14_mint_amount_total": dict(fns=["compile::compile_native_asset_for_mint"], bounds="amount: whole i128 range, mint and burn", tier="quick"),
}

K_COMMON_STUBS = ["std::fmt::format -> empty string (error-message text is outside every claim)",
                  "hex::encode -> empty string where listed (only used inside error messages)"]


# harnesses that decide a facet of another property as well (datum / redeemer integers are C02 quantities)
ALSO = {"C02": ["c09_int_datum", "c09_int_redeemer"]}


def k_harnesses(prop, tier):
    pre = prop.lower() + "_"
    out = []
    for h, d in K.items():
        if (h.startswith(pre) or h in ALSO.get(prop, [])) and (tier == "thorough" or d["tier"] == "quick"):
            out.append(h)
    return out
