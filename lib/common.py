"""Shared driver pieces: evidence, known findings, verdict plumbing (DESIGN.md §2)."""
import json, os, sys, time, subprocess, hashlib

VERIF = os.path.dirname(os.path.dirname(os.path.abspath(__file__)))
REPO = os.environ.get("VERIF_REPO", "/repo")
CACHE = os.path.join(VERIF, ".cache")
EVIDENCE = os.path.join(VERIF, "evidence")
KNOWN = os.path.join(VERIF, "known_findings.txt")

os.makedirs(CACHE, exist_ok=True)
os.makedirs(EVIDENCE, exist_ok=True)


def env_offline():
    e = dict(os.environ)
    e["CARGO_NET_OFFLINE"] = "true"
    e.setdefault("CARGO_TERM_COLOR", "never")
    return e


class Finding:
    """one counterexample: where (harness + site) and what (shape), plus a replayable case"""

    def __init__(self, prop, harness, site, shape, detail="", case=None, replayed=None):
        self.prop, self.harness, self.site, self.shape = prop, harness, site, shape
        self.detail, self.case, self.replayed = detail, case, replayed

    def key(self):
        return (self.prop, self.harness, self.site, self.shape)

    def as_dict(self):
        return dict(property=self.prop, harness=self.harness, site=self.site, shape=self.shape,
                    detail=self.detail, replayed=self.replayed)


def load_known():
    """known_findings.txt: `finding: {"property","harness","site","shape","what"}` lines suppress
    the *matching* counterexample only; `fixed: property=<id> <commit> <what>` lines suppress nothing."""
    out = []
    if os.path.exists(KNOWN):
        for line in open(KNOWN):
            line = line.strip()
            if line.startswith("finding:"):
                out.append(json.loads(line[len("finding:"):].strip()))
    return out


def match_known(f, known):
    for r in known:
        if r["property"] != f.prop:
            continue
        if r.get("harness") not in (None, f.harness):
            continue
        if r.get("site") not in (None, f.site):
            continue
        if r.get("shape") not in (None, f.shape):
            continue
        return r
    return None


class Inconclusive(Exception):
    pass


def finish(prop, tier, seed, t0, coverage, assumptions, findings, inconclusive, level="model_checking"):
    """write evidence, print KNOWN-FINDING / VIOLATION lines, exit 0/1/2"""
    known = load_known()
    new, old = [], []
    for f in findings:
        r = match_known(f, known)
        (old if r else new).append((f, r))
    seen = set()
    for f, r in old:
        k = (r["property"], r.get("harness"), r.get("site"), r.get("shape"))
        if k in seen:
            continue
        seen.add(k)
        print(f"KNOWN-FINDING: property={prop} {r.get('what', f.shape)} [harness={f.harness} site={f.site} shape={f.shape}]")
    rc = 0
    replay_dir = os.path.join(CACHE, "replay")
    os.makedirs(replay_dir, exist_ok=True)
    for f, _ in new:
        path = os.path.join(replay_dir, f"{prop}_{f.harness}_{hashlib.sha1(repr(f.key()).encode()).hexdigest()[:8]}.json")
        with open(path, "w") as fh:
            json.dump(dict(f.as_dict(), case=f.case), fh, indent=1, default=str)
        if f.replayed is False:
            # the model's counterexample does not reproduce on the real code: a bug in /verif
            print(f"INCONCLUSIVE: property={prop} harness={f.harness} counterexample did not reproduce natively ({f.shape})")
            inconclusive.append(f"non-reproducing counterexample in {f.harness}")
            continue
        print(f"VIOLATION property={prop} replay={path}")
        print(f"  harness={f.harness} site={f.site} shape={f.shape} {f.detail}")
        rc = 1
    coverage.setdefault("known_findings_seen", [f.as_dict() for f, _ in old][:20])
    ev = dict(property_id=prop, tier=tier, seed=seed, level=level, coverage=coverage,
              assumptions=assumptions, wall_s=round(time.time() - t0, 2),
              violations=len([1 for f, _ in new if f.replayed is not False]))
    if inconclusive:
        ev["coverage"]["inconclusive"] = inconclusive
    with open(os.path.join(EVIDENCE, f"{prop}.json"), "w") as fh:
        json.dump(ev, fh, indent=1, default=str)
    if rc == 0 and inconclusive:
        for m in inconclusive:
            print(f"INCONCLUSIVE: property={prop} {m}")
        rc = 2
    if rc == 0:
        print(f"OK property={prop} tier={tier} wall_s={ev['wall_s']}")
    sys.exit(rc)
