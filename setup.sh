#!/bin/bash
# offline setup: warm the Kani target dir (first build of the harness crate) and the MIR dumps so
# that the first ./check does not pay for them.  Everything lives under /verif/.cache.
set -e
export CARGO_NET_OFFLINE=true
mkdir -p /verif/.cache
cd /verif/kani
cp /repo/Cargo.lock Cargo.lock
cargo kani -Z stubbing --target-dir /verif/.cache/kani-target --only-codegen > /verif/.cache/setup_kani.log 2>&1 || { tail -30 /verif/.cache/setup_kani.log; exit 1; }
cd /verif
python3 mirsym/mirdump.py tx3-tir tx3-cardano tx3-resolver tx3-lang tx3c > /verif/.cache/setup_mir.log 2>&1 || { tail -30 /verif/.cache/setup_mir.log; exit 1; }
python3 - <<'PY'
import subprocess
for ovf in ("off",):
    subprocess.run(["python3", "-c", "import sys; sys.path.insert(0,'/verif/mirsym'); import mirdump; mirdump.dump('tx3-tir','off')"], check=True)
PY
cd /verif/frontend && cp /repo/Cargo.lock Cargo.lock && CARGO_TARGET_DIR=/verif/.cache/frontend-target cargo build --release --offline > /verif/.cache/setup_frontend.log 2>&1 || { tail -30 /verif/.cache/setup_frontend.log; exit 1; }
cd /verif/replay && cp /repo/Cargo.lock Cargo.lock && RUSTFLAGS="--cfg tx3_verif" CARGO_TARGET_DIR=/verif/.cache/replay-target cargo build --release --offline > /verif/.cache/setup_replay.log 2>&1 || { tail -30 /verif/.cache/setup_replay.log; exit 1; }
cd /verif && python3-vt lib/selftest.py || { echo "selftest: engine M disagrees with the native code"; exit 1; }
echo setup ok
