#!/bin/bash
# offline setup: warm the Kani target dir (first build of the harness crate) so that the
# first ./check does not pay for it.  Everything lives under /verif/.cache.
set -e
export CARGO_NET_OFFLINE=true
cd /verif/kani
cp /repo/Cargo.lock Cargo.lock
cargo kani -Z stubbing --target-dir /verif/.cache/kani-target --only-codegen > /verif/.cache/setup_kani.log 2>&1 || { tail -30 /verif/.cache/setup_kani.log; exit 1; }
echo setup ok
