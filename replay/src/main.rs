//! Native oracle / replayer: executes the repository's real functions (built with the hook cfg
//! `tx3_verif`) on one JSON case read from stdin and prints the observable result as JSON.
//! Used (a) to validate engine M's interpreter and models against the real code on concrete
//! vectors (selftest) and (b) to replay counterexamples before they are reported.
use std::collections::{BTreeMap, HashSet};

use serde_json::{json, Value};
use tx3_cardano::pallas::ledger::primitives::NetworkId;
use tx3_tir::model::assets::{AssetClass, CanonicalAssets};
use tx3_tir::model::core::Utxo;
use tx3_tir::model::v1beta0 as tir;
use tx3_tir::reduce::{self, ArgValue};
use tx3_tir::Node;

fn compiler(slot: u64, timestamp: u128) -> tx3_cardano::Compiler {
    tx3_cardano::Compiler::new(
        tx3_cardano::PParams {
            network: NetworkId::Testnet,
            min_fee_coefficient: 44,
            min_fee_constant: 155381,
            coins_per_utxo_byte: 4310,
            // placeholder cost models: only their presence matters to the checks that use this binary
            cost_models: [(0u8, vec![1i64, 2, 3]), (1, vec![1, 2, 3]), (2, vec![1, 2, 3])].into_iter().collect(),
        },
        tx3_cardano::Config { extra_fees: None },
        tx3_cardano::ChainPoint { slot, hash: vec![], timestamp },
    )
}

fn pipeline(case: &Value) -> Value {
    let tx: tir::Tx = serde_json::from_value(case["tir"].clone()).expect("tir");
    let args: BTreeMap<String, ArgValue> = serde_json::from_value(case["args"].clone()).expect("args");
    let inputs: BTreeMap<String, HashSet<Utxo>> = case["inputs"]
        .as_object()
        .map(|m| {
            m.iter()
                .map(|(k, v)| (k.clone(), v.as_array().expect("utxos").iter().map(utxo_of).collect()))
                .collect()
        })
        .unwrap_or_default();
    let fee = case["fee"].as_u64().unwrap_or(0);
    let mut comp = compiler(1000, 5_000_000);
    let run = || -> Result<tir::Tx, String> {
        let t = reduce::apply_args(tx, &args).map_err(|e| format!("apply_args: {e:?}"))?;
        let t = reduce::apply_inputs(t, &inputs).map_err(|e| format!("apply_inputs: {e:?}"))?;
        let t = reduce::apply_fees(t, fee).map_err(|e| format!("apply_fees: {e:?}"))?;
        let t = reduce::reduce(t).map_err(|e| format!("reduce: {e:?}"))?;
        let t = t.apply(&mut comp).map_err(|e| format!("compiler ops: {e:?}"))?;
        reduce::reduce(t).map_err(|e| format!("reduce: {e:?}"))
    };
    let reduced = match std::panic::catch_unwind(std::panic::AssertUnwindSafe(run)) {
        Ok(Ok(t)) => t,
        Ok(Err(e)) => return json!({ "error": e }),
        Err(_) => return json!({ "panic": "apply/reduce" }),
    };
    let body = std::panic::catch_unwind(|| tx3_cardano::compile::verif_hooks::compile_tx_body(&reduced, NetworkId::Testnet));
    let body = match body {
        Ok(Ok(b)) => serde_json::to_value(&b).unwrap_or(json!("unserialisable")),
        Ok(Err(e)) => json!({ "error": format!("{e:?}") }),
        Err(_) => json!({ "panic": "compile_tx_body" }),
    };
    // the reduced template holds UTxO sets whose asset maps are keyed by an enum: not JSON-able
    json!({ "reduced_debug": format!("{reduced:?}"), "body": body })
}

fn utxo_of(v: &Value) -> Utxo {
    // {ref: {txid, index}, address: [..], assets_list: [[class, "amount"]], datum: <Expression json> | null}
    Utxo {
        r#ref: serde_json::from_value(v["ref"].clone()).expect("ref"),
        address: bytes(&v["address"]),
        assets: assets_of(&v["assets_list"]),
        datum: if v["datum"].is_null() { None } else { Some(serde_json::from_value(v["datum"].clone()).expect("datum")) },
        script: None,
    }
}

fn class_of(v: &Value) -> AssetClass {
    match v {
        Value::String(s) if s == "naked" => AssetClass::Naked,
        Value::Array(a) if a.len() == 1 => AssetClass::Named(bytes(&a[0])),
        Value::Array(a) => AssetClass::Defined(bytes(&a[0]), bytes(&a[1])),
        _ => panic!("class"),
    }
}

fn bytes(v: &Value) -> Vec<u8> {
    v.as_array().unwrap().iter().map(|x| x.as_u64().unwrap() as u8).collect()
}

fn assets_of(v: &Value) -> CanonicalAssets {
    // [[class, amount-as-string], ..] built through the public constructors and `+`
    let mut acc = CanonicalAssets::empty();
    for e in v.as_array().unwrap() {
        let amount: i128 = e[1].as_str().unwrap().parse().unwrap();
        acc = acc + CanonicalAssets::from_class_and_amount(class_of(&e[0]), amount);
    }
    acc
}

fn assets_json(a: &CanonicalAssets) -> Value {
    let mut out: Vec<(String, String)> = a.iter().map(|(c, v)| (format!("{c}"), v.to_string())).collect();
    out.sort();
    json!(out)
}

fn assets(case: &Value) -> Value {
    let a = assets_of(&case["a"]);
    let r = std::panic::catch_unwind(|| match case["op"].as_str().unwrap() {
        "add" => assets_json(&(a.clone() + assets_of(&case["b"]))),
        "sub" => assets_json(&(a.clone() - assets_of(&case["b"]))),
        "neg" => assets_json(&(-a.clone())),
        "contains_total" => json!(a.contains_total(&assets_of(&case["b"]))),
        "contains_some" => json!(a.contains_some(&assets_of(&case["b"]))),
        "is_empty" => json!(a.is_empty()),
        "is_empty_or_negative" => json!(a.is_empty_or_negative()),
        "is_only_naked" => json!(a.is_only_naked()),
        "eq" => json!(a == assets_of(&case["b"])),
        _ => json!("unknown op"),
    });
    r.unwrap_or(json!({ "panic": "assets" }))
}

fn from_json(case: &Value) -> Value {
    let ty: tx3_tir::model::core::Type = serde_json::from_value(case["type"].clone()).expect("type");
    let r = std::panic::catch_unwind(|| tx3_resolver::interop::from_json(case["value"].clone(), &ty));
    match r {
        Ok(Ok(v)) => json!({ "ok": match v {
            ArgValue::Int(x) => json!({ "Int": x.to_string() }),
            other => serde_json::to_value(&other).unwrap_or(json!("unserialisable")),
        } }),
        Ok(Err(e)) => json!({ "err": format!("{e}") }),
        Err(_) => json!({ "panic": "from_json" }),
    }
}

// ---- C20: the same template resolved on a fresh and on a reused compiler instance -----------

/// a store holding the UTxOs of the case (`utxos`: same JSON shape as the pipeline inputs)
struct ListStore(Vec<Utxo>);

impl tx3_resolver::UtxoStore for ListStore {
    async fn narrow_refs(&self, pattern: tx3_resolver::UtxoPattern<'_>) -> Result<HashSet<tx3_tir::model::core::UtxoRef>, tx3_resolver::Error> {
        Ok(self
            .0
            .iter()
            .filter(|u| match &pattern {
                tx3_resolver::UtxoPattern::ByAddress(a) => u.address.as_slice() == *a,
                tx3_resolver::UtxoPattern::ByAssetPolicy(p) => u.assets.iter().any(|(c, _)| matches!(c, AssetClass::Defined(x, _) if x.as_slice() == *p)),
                tx3_resolver::UtxoPattern::ByAsset(p, n) => u.assets.iter().any(|(c, _)| matches!(c, AssetClass::Defined(x, y) if x.as_slice() == *p && y.as_slice() == *n)),
            })
            .map(|u| u.r#ref.clone())
            .collect())
    }

    async fn fetch_utxos(&self, refs: HashSet<tx3_tir::model::core::UtxoRef>) -> Result<tx3_tir::model::core::UtxoSet, tx3_resolver::Error> {
        Ok(self.0.iter().filter(|u| refs.contains(&u.r#ref)).cloned().collect())
    }
}

/// the futures of this binary never suspend (the store answers at once): poll once
fn block_on<F: std::future::Future>(f: F) -> F::Output {
    struct Noop;
    impl std::task::Wake for Noop {
        fn wake(self: std::sync::Arc<Self>) {}
    }
    let waker = std::task::Waker::from(std::sync::Arc::new(Noop));
    let mut cx = std::task::Context::from_waker(&waker);
    let mut f = std::pin::pin!(f);
    loop {
        if let std::task::Poll::Ready(x) = f.as_mut().poll(&mut cx) {
            return x;
        }
    }
}

fn outcome(comp: &mut tx3_cardano::Compiler, tx: &tir::Tx, rounds: usize, store: &ListStore, args: &BTreeMap<String, ArgValue>) -> Value {
    let any = tx3_tir::encoding::AnyTir::V1Beta0(tx.clone());
    let r = std::panic::catch_unwind(std::panic::AssertUnwindSafe(|| block_on(tx3_resolver::resolve_tx(any, args, comp, store, rounds))));
    match r {
        Ok(Ok(c)) => json!({ "ok": { "payload": hex::encode(&c.payload), "hash": hex::encode(&c.hash), "fee": c.fee } }),
        Ok(Err(e)) => {
            let d = format!("{e:?}");
            json!({ "error": d.split(|c: char| !c.is_alphanumeric()).filter(|w| !w.is_empty()).take(3).collect::<Vec<_>>().join("/") })
        }
        Err(_) => json!({ "panic": "resolve_tx" }),
    }
}

fn history(case: &Value) -> Value {
    let tx: tir::Tx = serde_json::from_value(case["tir"].clone()).expect("tir");
    let earlier: Vec<tir::Tx> = serde_json::from_value(case["earlier"].clone()).expect("earlier");
    let rounds = case["rounds"].as_u64().unwrap_or(3) as usize;
    let mut fresh = compiler(1000, 5_000_000);
    let mut used = compiler(1000, 5_000_000);
    let store = ListStore(case["utxos"].as_array().map(|a| a.iter().map(utxo_of).collect()).unwrap_or_default());
    let args: BTreeMap<String, ArgValue> = if case["args"].is_object() { serde_json::from_value(case["args"].clone()).expect("args") } else { BTreeMap::new() };
    let before: Vec<Value> = earlier.iter().map(|t| outcome(&mut used, t, rounds, &store, &args)).collect();
    json!({ "earlier": before, "fresh": outcome(&mut fresh, &tx, rounds, &store, &args), "reused": outcome(&mut used, &tx, rounds, &store, &args) })
}

fn main() {
    if std::env::var("REPLAY_VERBOSE").is_err() {
        std::panic::set_hook(Box::new(|_| {}));
    }
    let mut s = String::new();
    std::io::Read::read_to_string(&mut std::io::stdin(), &mut s).unwrap();
    let cases: Value = serde_json::from_str(&s).expect("json");
    let cases = if cases.is_array() { cases.as_array().unwrap().clone() } else { vec![cases] };
    let out: Vec<Value> = cases
        .iter()
        .map(|c| match c["cmd"].as_str().unwrap_or("") {
            "pipeline" => pipeline(c),
            "assets" => assets(c),
            "from_json" => from_json(c),
            "history" => history(c),
            _ => json!({ "error": "unknown cmd" }),
        })
        .collect();
    println!("{}", serde_json::to_string(&out).unwrap());
}
