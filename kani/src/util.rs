use tx3_cardano::pallas;
use tx3_tir::model::v1beta0 as tir;

/// stub for `std::fmt::format`: the text of error messages is outside every claim
pub fn nofmt(_args: std::fmt::Arguments<'_>) -> String {
    String::new()
}

/// stub for `hex::encode`: only used to render byte strings inside error messages
pub fn nohex<T: AsRef<[u8]>>(_data: T) -> String {
    String::new()
}

/// stub for `ByronAddress::to_vec` (Byron addresses are outside every claim; without
/// the stub Kani 0.68 ICEs in codegen of `minicbor::encode::Error::<Infallible>::write`)
pub fn byron_to_vec(_a: &pallas::ledger::addresses::ByronAddress) -> Vec<u8> {
    Vec::new()
}

/// stub for `RandomState::new` (the real one reads OS randomness through a syscall
/// Kani rejects); only used to *construct* empty hash maps, never to operate on them.
pub fn fixed_random_state() -> std::hash::RandomState {
    // SAFETY: RandomState is two u64 keys
    unsafe { std::mem::transmute::<(u64, u64), std::hash::RandomState>((0, 0)) }
}

/// a byte vector of symbolic length `0..=N` with symbolic content
pub fn any_bytes<const N: usize>() -> Vec<u8> {
    let buf: [u8; N] = kani::any();
    let len: usize = kani::any();
    kani::assume(len <= N);
    // concrete allocation of N bytes, symbolic length (truncate on u8 only sets len)
    let mut v = buf.to_vec();
    v.truncate(len);
    v
}

/// a byte vector of concrete length N with symbolic content
pub fn any_bytes_exact<const N: usize>() -> Vec<u8> {
    let buf: [u8; N] = kani::any();
    buf.to_vec()
}

pub fn num(x: i128) -> tir::Expression {
    tir::Expression::Number(x)
}

pub fn asset(policy: tir::Expression, name: tir::Expression, amount: i128) -> tir::AssetExpr {
    tir::AssetExpr {
        policy,
        asset_name: name,
        amount: num(amount),
    }
}

/// big-endian magnitude of a byte string, as u128 (None if longer than 16 bytes)
pub fn be_value(bytes: &[u8]) -> Option<u128> {
    if bytes.len() > 16 {
        return None;
    }
    let mut v: u128 = 0;
    let mut i = 0;
    while i < bytes.len() {
        v = (v << 8) | bytes[i] as u128;
        i += 1;
    }
    Some(v)
}
