//! C14 — the back end is total: no feasible panic on byte strings of any length where
//! 28/32 bytes are expected, integers of any size, malformed references.
//! Every length 0..=N is explored by a concrete loop (symbolic *content*), because a
//! symbolic-length allocation is what CBMC cannot bound cheaply.

use crate::util::*;
use tx3_cardano::compile::verif_hooks as hooks;
use tx3_cardano::pallas;
use tx3_cardano::pallas::ledger::primitives::NetworkId;
use tx3_tir::model::v1beta0 as tir;

const MAXLEN: usize = 33;

/// the checked constructor itself, on a slice of symbolic length 0..=33
#[kani::proof]
#[kani::unwind(36)]
#[kani::stub(std::fmt::format, nofmt)]
#[kani::stub(hex::encode, nohex)]
fn c14_bytes_into_hash28() {
    let buf: [u8; MAXLEN] = kani::any();
    let len: usize = kani::any();
    kani::assume(len <= MAXLEN);
    let r = tx3_cardano::coercion::bytes_into_hash::<28>(&buf[..len]);
    assert!(r.is_ok() == (len == 28), "a hash is accepted iff it has the expected size");
    if let Ok(h) = &r {
        assert!(h.as_ref()[0] == buf[0] && h.as_ref()[27] == buf[27], "content preserved");
    }
    kani::cover!(len == 28, "exact size reachable");
    kani::cover!(len == 29, "oversize reachable");
    std::mem::forget(r);
}

#[kani::proof]
#[kani::unwind(36)]
#[kani::stub(std::fmt::format, nofmt)]
#[kani::stub(hex::encode, nohex)]
fn c14_bytes_into_hash32() {
    let buf: [u8; MAXLEN] = kani::any();
    let len: usize = kani::any();
    kani::assume(len <= MAXLEN);
    let r = tx3_cardano::coercion::bytes_into_hash::<32>(&buf[..len]);
    assert!(r.is_ok() == (len == 32), "a hash is accepted iff it has the expected size");
    kani::cover!(len == 32, "exact size reachable");
    std::mem::forget(r);
}

/// policy of an output asset: any length 0..=33 => Ok iff 28 (with amount 1), never a panic
#[kani::proof]
#[kani::unwind(36)]
#[kani::stub(std::fmt::format, nofmt)]
#[kani::stub(hex::encode, nohex)]
fn c14_policy_len_output() {
    let policy = any_bytes::<MAXLEN>();
    let len = policy.len();
    let a = asset(tir::Expression::Bytes(policy), tir::Expression::Bytes(vec![1u8]), 1);
    let r = hooks::compile_native_asset_for_output(&a);
    assert!(r.is_ok() == (len == 28), "a policy id is accepted iff it has 28 bytes");
    kani::cover!(len == 28, "exact size reachable");
    kani::cover!(len == 0, "empty reachable");
    std::mem::forget(r);
    std::mem::forget(a);
}

#[kani::proof]
#[kani::unwind(36)]
#[kani::stub(std::fmt::format, nofmt)]
#[kani::stub(hex::encode, nohex)]
fn c14_policy_len_mint() {
    let policy = any_bytes::<MAXLEN>();
    let len = policy.len();
    let a = asset(tir::Expression::Bytes(policy), tir::Expression::Bytes(vec![1u8]), 1);
    let r = hooks::compile_native_asset_for_mint(&a, false);
    assert!(r.is_ok() == (len == 28), "a policy id is accepted iff it has 28 bytes");
    kani::cover!(len == 28, "exact size reachable");
    std::mem::forget(r);
    std::mem::forget(a);
}

macro_rules! hash_len_harness {
    ($name:ident, $size:expr, $variant:ident) => {
        #[kani::proof]
        #[kani::unwind(36)]
        #[kani::stub(std::fmt::format, nofmt)]
#[kani::stub(hex::encode, nohex)]
        fn $name() {
            let bytes = any_bytes::<MAXLEN>();
            let len = bytes.len();
            let e = tir::Expression::$variant(bytes);
            let r = tx3_cardano::coercion::expr_into_hash::<$size>(&e);
            assert!(r.is_ok() == (len == $size), "a hash is accepted iff it has the expected size");
            kani::cover!(len == $size, "exact size reachable");
            std::mem::forget(r);
            std::mem::forget(e);
        }
    };
}
hash_len_harness!(c14_hash28_bytes, 28, Bytes);
hash_len_harness!(c14_hash28_hash, 28, Hash);
hash_len_harness!(c14_hash32_bytes, 32, Bytes);

/// key hash of a signer given as raw bytes
#[kani::proof]
#[kani::unwind(36)]
#[kani::stub(std::fmt::format, nofmt)]
#[kani::stub(hex::encode, nohex)]
fn c14_keyhash_len() {
    let bytes = any_bytes::<MAXLEN>();
    let len = bytes.len();
    let e = tir::Expression::Bytes(bytes);
    let r = tx3_cardano::coercion::expr_into_address_keyhash(&e);
    assert!(r.is_ok() == (len == 28), "a key hash is accepted iff it has 28 bytes");
    kani::cover!(len == 28, "exact size reachable");
    std::mem::forget(r);
    std::mem::forget(e);
}

/// script address from a policy of any length
#[kani::proof]
#[kani::unwind(36)]
#[kani::stub(std::fmt::format, nofmt)]
#[kani::stub(hex::encode, nohex)]
#[kani::stub(pallas::ledger::addresses::ByronAddress::to_vec, byron_to_vec)]
fn c14_script_address_len() {
    let buf: [u8; MAXLEN] = kani::any();
    let len: usize = kani::any();
    kani::assume(len <= MAXLEN);
    let mainnet: bool = kani::any();
    let net = if mainnet { NetworkId::Mainnet } else { NetworkId::Testnet };
    let r = tx3_cardano::coercion::policy_into_address(&buf[..len], net);
    assert!(r.is_ok() == (len == 28), "a script hash is accepted iff it has 28 bytes");
    kani::cover!(len == 28 && mainnet, "exact size reachable");
    std::mem::forget(r);
}
/// every integer compiles to data without a panic (datum path)
#[kani::proof]
#[kani::unwind(18)]
#[kani::stub(std::fmt::format, nofmt)]
#[kani::stub(hex::encode, nohex)]
fn c14_int_total() {
    let x: i128 = kani::any();
    let e = num(x);
    let r = hooks::compile_data_expr(&e);
    assert!(r.is_ok(), "integers always have a data encoding");
    std::mem::forget(r);
    std::mem::forget(e);
}

/// mint of any integer amount: Ok or Err, never a panic (zero, i128::MIN, > i64)
#[kani::proof]
#[kani::unwind(30)]
#[kani::stub(std::fmt::format, nofmt)]
#[kani::stub(hex::encode, nohex)]
fn c14_mint_amount_total() {
    let x: i128 = kani::any();
    let burn: bool = kani::any();
    let a = asset(tir::Expression::Bytes(vec![7u8; 28]), tir::Expression::Bytes(vec![1u8]), x);
    let r = hooks::compile_native_asset_for_mint(&a, burn);
    kani::cover!(r.is_err() && x == 0, "zero rejected, not a panic");
    kani::cover!(r.is_ok(), "ordinary accepted");
    std::mem::forget(r);
    std::mem::forget(a);
}

// `expr_into_utxo_refs(String(..))` (split_once / hex::decode / parse::<u32> on symbolic text)
// did not finish under Kani within 15 min for 4 symbolic characters (probed); it is decided
// by engine M with string models instead.
