//! C02 — quantities are exact or the operation fails (conversion sites of tx3-cardano
//! and the scalar arithmetic of the reducer), full i128 range.

use crate::util::*;
use tx3_cardano::compile::verif_hooks as hooks;
use tx3_cardano::pallas;
use tx3_cardano::pallas::ledger::primitives::conway::Value;
use tx3_tir::model::v1beta0 as tir;
use tx3_tir::reduce::Arithmetic;

const POLICY: [u8; 28] = [7u8; 28];

/// lovelace of an output: Ok(v) => v == x exactly
#[kani::proof]
#[kani::unwind(4)]
#[kani::stub(std::fmt::format, nofmt)]
fn c02_lovelace_exact() {
    let x: i128 = kani::any();
    let a = asset(tir::Expression::None, tir::Expression::None, x);
    let r = hooks::compile_value(&a);
    match &r {
        Ok(Value::Coin(v)) => {
            assert!(*v as i128 == x, "lovelace amount is the exact value of the expression");
            kani::cover!(x == 5_000_000, "ordinary amount accepted");
        }
        Ok(_) => panic!("lovelace compiles to Coin"),
        Err(_) => {
            assert!(x < 0 || x > u64::MAX as i128, "a representable lovelace amount is accepted");
            kani::cover!(x < 0, "negative rejected");
        }
    }
    std::mem::forget(r);
    std::mem::forget(a);
}

/// native asset of an output: Ok => the amount is exact and the asset is present
/// (zero may be absent); negative or oversized => Err, never dropped or wrapped
#[kani::proof]
#[kani::unwind(30)]
#[kani::stub(std::fmt::format, nofmt)]
fn c02_token_exact() {
    let x: i128 = kani::any();
    let name = vec![1u8, 2, 3];
    let a = asset(
        tir::Expression::Bytes(POLICY.to_vec()),
        tir::Expression::Bytes(name.clone()),
        x,
    );
    let r = hooks::compile_value(&a);
    match &r {
        Ok(Value::Multiasset(coin, ma)) => {
            assert!(*coin == 0, "no lovelace invented");
            assert!(ma.len() == 1, "one policy");
            let (p, assets) = ma.iter().next().unwrap();
            assert!(p.as_ref() == &POLICY[..], "policy preserved");
            assert!(assets.len() == 1, "one asset");
            let (n, q) = assets.iter().next().unwrap();
            let n: &Vec<u8> = n;
            assert!(n.len() == 3 && n[0] == 1 && n[1] == 2 && n[2] == 3, "asset name preserved");
            assert!(u64::from(*q) as i128 == x, "token amount is the exact value of the expression");
            kani::cover!(x == 1, "smallest amount accepted");
        }
        Ok(Value::Coin(c)) => {
            assert!(*c == 0, "no lovelace invented");
            assert!(x == 0, "only a zero amount may be left out of the value");
        }
        Err(_) => {
            assert!(x <= 0 || x > u64::MAX as i128, "a representable token amount is accepted");
            kani::cover!(x < 0, "negative rejected");
        }
    }
    std::mem::forget(r);
    std::mem::forget(a);
}

macro_rules! mint_harness {
    ($name:ident, $is_burn:expr) => {
        #[kani::proof]
        #[kani::unwind(30)]
        #[kani::stub(std::fmt::format, nofmt)]
        fn $name() {
            let x: i128 = kani::any();
            let a = asset(
                tir::Expression::Bytes(POLICY.to_vec()),
                tir::Expression::Bytes(vec![9u8]),
                x,
            );
            let r = hooks::compile_native_asset_for_mint(&a, $is_burn);
            // mathematical value the field must hold
            let want: Option<i128> = if $is_burn { x.checked_neg() } else { Some(x) };
            match &r {
                Ok(ma) => {
                    assert!(ma.len() == 1, "one policy");
                    let (_, assets) = ma.iter().next().unwrap();
                    assert!(assets.len() == 1, "one asset");
                    let (_, q) = assets.iter().next().unwrap();
                    assert!(Some(i64::from(*q) as i128) == want, "mint/burn quantity is exact");
                    kani::cover!(x == 3, "ordinary amount accepted");
                }
                Err(_) => {
                    let fits = match want {
                        Some(w) => w != 0 && w >= i64::MIN as i128 && w <= i64::MAX as i128,
                        None => false,
                    };
                    assert!(!fits, "a representable mint/burn quantity is accepted");
                    kani::cover!(x == 0, "zero rejected");
                }
            }
            std::mem::forget(r);
            std::mem::forget(a);
        }
    };
}
mint_harness!(c02_mint_exact, false);
mint_harness!(c02_burn_exact, true);

/// validity interval: slots exact or Err
#[kani::proof]
#[kani::unwind(4)]
#[kani::stub(std::fmt::format, nofmt)]
fn c02_validity_exact() {
    let s: i128 = kani::any();
    let u: i128 = kani::any();
    let v = tir::Validity { since: num(s), until: num(u) };
    let r = hooks::compile_validity(Some(&v));
    match &r {
        Ok((Some(a), Some(b))) => {
            assert!(*a as i128 == s, "validity start is exact");
            assert!(*b as i128 == u, "ttl is exact");
            kani::cover!(s == 100 && u == 200, "ordinary interval accepted");
        }
        Ok(_) => panic!("both bounds were given"),
        Err(_) => {
            let fits = |n: i128| n >= 0 && n <= u64::MAX as i128;
            assert!(!(fits(s) && fits(u)), "representable slots are accepted");
            kani::cover!(s < 0, "negative slot rejected");
        }
    }
    std::mem::forget(r);
    std::mem::forget(v);
}

/// absent bounds stay absent
#[kani::proof]
#[kani::unwind(4)]
#[kani::stub(std::fmt::format, nofmt)]
fn c02_validity_absent() {
    let u: i128 = kani::any();
    let v = tir::Validity { since: tir::Expression::None, until: num(u) };
    let r = hooks::compile_validity(Some(&v));
    match &r {
        Ok((None, Some(b))) => assert!(*b as i128 == u, "ttl is exact"),
        Ok(_) => panic!("since absent, until present"),
        Err(_) => assert!(u < 0 || u > u64::MAX as i128, "representable ttl accepted"),
    }
    let r2 = hooks::compile_validity(None);
    assert!(matches!(r2, Ok((None, None))), "no validity block => no bounds");
    std::mem::forget(r);
    std::mem::forget(v);
}

/// metadata integer: exact or Err
#[kani::proof]
#[kani::unwind(4)]
#[kani::stub(std::fmt::format, nofmt)]
fn c02_metadata_int_exact() {
    use pallas::ledger::primitives::alonzo::Metadatum;
    let x: i128 = kani::any();
    let e = num(x);
    let r = tx3_cardano::coercion::expr_into_metadatum(&e);
    match &r {
        Ok(Metadatum::Int(i)) => {
            assert!(i128::from(*i) == x, "metadata integer is exact");
            kani::cover!(x == -5, "negative accepted");
        }
        Ok(_) => panic!("a number becomes Metadatum::Int"),
        Err(_) => {
            assert!(x < -(1i128 << 64) || x > (1i128 << 64) - 1, "representable metadata integer accepted");
            kani::cover!(x > (1i128 << 100), "oversized rejected");
        }
    }
    std::mem::forget(r);
    std::mem::forget(e);
}

/// `expr_into_number` is the identity on numbers and on single-asset lists
#[kani::proof]
#[kani::unwind(4)]
#[kani::stub(std::fmt::format, nofmt)]
fn c02_expr_into_number_exact() {
    let x: i128 = kani::any();
    let e = num(x);
    let r = tx3_cardano::coercion::expr_into_number(&e);
    assert!(matches!(r, Ok(v) if v == x), "number read exactly");
    let e2 = tir::Expression::Assets(vec![asset(tir::Expression::None, tir::Expression::None, x)]);
    let r2 = tx3_cardano::coercion::expr_into_number(&e2);
    assert!(matches!(r2, Ok(v) if v == x), "single-asset amount read exactly");
    std::mem::forget((r, r2, e, e2));
}

// ---- reducer scalar arithmetic (tx3-tir) --------------------------------------

fn as_num(r: &Result<tir::Expression, tx3_tir::reduce::Error>) -> Option<i128> {
    match r {
        Ok(tir::Expression::Number(v)) => Some(*v),
        _ => None,
    }
}

/// Number + Number: the mathematical sum or Err — never a wrapped value, never a panic
#[kani::proof]
#[kani::unwind(4)]
#[kani::stub(std::fmt::format, nofmt)]
fn c02_reduce_add_exact() {
    let x: i128 = kani::any();
    let y: i128 = kani::any();
    let r = Arithmetic::add(num(x), num(y));
    match x.checked_add(y) {
        Some(s) => assert!(as_num(&r) == Some(s), "x + y is the mathematical sum"),
        None => assert!(r.is_err(), "an overflowing sum is an error"),
    }
    kani::cover!(x.checked_add(y).is_none(), "overflow reachable");
    std::mem::forget(r);
}

// Number - Number (`sub` = `neg` then `add`): under Kani the symbolic execution of
// `<i128 as Arithmetic>::sub` did not finish within 200 s (CBMC loses the discriminant of the
// negated operand and wanders into the multi-asset arm, i.e. into a HashMap); decided by
// engine M on the MIR instead.

/// -Number
#[kani::proof]
#[kani::unwind(4)]
#[kani::stub(std::fmt::format, nofmt)]
fn c02_reduce_neg_exact() {
    let x: i128 = kani::any();
    let r = Arithmetic::neg(num(x));
    match x.checked_neg() {
        Some(s) => assert!(as_num(&r) == Some(s), "-x is the mathematical negation"),
        None => assert!(r.is_err(), "negating i128::MIN is an error"),
    }
    std::mem::forget(r);
}

/// None on either side acts as zero: None + x = x, x + None = x, x - None = x, None - x = -x
#[kani::proof]
#[kani::unwind(4)]
#[kani::stub(std::fmt::format, nofmt)]
fn c02_reduce_none_is_zero() {
    let x: i128 = kani::any();
    kani::assume(x != i128::MIN);
    let r1 = Arithmetic::add(tir::Expression::None, num(x));
    assert!(as_num(&r1) == Some(x), "None + x = x");
    let r2 = Arithmetic::add(num(x), tir::Expression::None);
    assert!(as_num(&r2) == Some(x), "x + None = x");
    let r3 = Arithmetic::sub(num(x), tir::Expression::None);
    assert!(as_num(&r3) == Some(x), "x - None = x");
    let r4 = Arithmetic::sub(tir::Expression::None, num(x));
    assert!(as_num(&r4) == Some(-x) || r4.is_err(), "None - x = -x (or an error), never x");
    kani::cover!(x == 7, "reachable");
    std::mem::forget((r1, r2, r3, r4));
}

// ---- indexing by integer (reducer) -----------------------------------------

use tx3_tir::reduce::Indexable;

/// list[n]: element n for 0 <= n < len, otherwise nothing — for every i128 n
/// (a truncating `n as usize` would make 2^64 select element 0)
#[kani::proof]
#[kani::unwind(5)]
#[kani::stub(std::fmt::format, nofmt)]
fn c02_index_list_exact() {
    let n: i128 = kani::any();
    let a: i128 = kani::any();
    let b: i128 = kani::any();
    let l = tir::Expression::List(vec![num(a), num(b)]);
    let r = l.index(num(n));
    match &r {
        Some(tir::Expression::Number(v)) => {
            assert!(n == 0 || n == 1, "only in-range indices select an element");
            assert!(*v == if n == 0 { a } else { b }, "index n selects element n");
        }
        Some(_) => panic!("elements are numbers"),
        None => assert!(n < 0 || n > 1, "in-range indices select an element"),
    }
    kani::cover!(n == 1, "in range reachable");
    kani::cover!(n == (1i128 << 64), "2^64 reachable");
    std::mem::forget((r, l));
}

/// struct field index
#[kani::proof]
#[kani::unwind(5)]
#[kani::stub(std::fmt::format, nofmt)]
fn c02_index_struct_exact() {
    let n: i128 = kani::any();
    let a: i128 = kani::any();
    let b: i128 = kani::any();
    let s = tir::StructExpr { constructor: 0, fields: vec![num(a), num(b)] };
    let r = s.index(num(n));
    match &r {
        Some(tir::Expression::Number(v)) => {
            assert!(n == 0 || n == 1, "only in-range indices select a field");
            assert!(*v == if n == 0 { a } else { b }, "index n selects field n");
        }
        Some(_) => panic!("fields are numbers"),
        None => assert!(n < 0 || n > 1, "in-range indices select a field"),
    }
    kani::cover!(n == -(1i128 << 64), "negative multiple of 2^64 reachable");
    std::mem::forget((r, s));
}

/// tuple index
#[kani::proof]
#[kani::unwind(5)]
#[kani::stub(std::fmt::format, nofmt)]
fn c02_index_tuple_exact() {
    let n: i128 = kani::any();
    let a: i128 = kani::any();
    let b: i128 = kani::any();
    let t = tir::Expression::Tuple(Box::new((num(a), num(b))));
    let r = t.index(num(n));
    match &r {
        Some(tir::Expression::Number(v)) => {
            assert!(n == 0 || n == 1, "only 0 and 1 select a tuple component");
            assert!(*v == if n == 0 { a } else { b }, "index n selects component n");
        }
        Some(_) => panic!("components are numbers"),
        None => assert!(n != 0 && n != 1, "0 and 1 select a component"),
    }
    std::mem::forget((r, t));
}

/// lovelace total of an output built from two values: the exact sum, or an error when it leaves u64
/// (the repaired `try_aggregate_values`; the map of native assets stays empty: Coin values only)
#[kani::proof]
#[kani::unwind(4)]
#[kani::stub(std::fmt::format, nofmt)]
fn c02_aggregate_coin_exact() {
    let x: u64 = kani::any();
    let y: u64 = kani::any();
    let r = hooks::try_aggregate_values([Value::Coin(x), Value::Coin(y)]);
    match &r {
        Ok(Value::Coin(v)) => {
            assert!(*v as u128 == x as u128 + y as u128, "the lovelace total is the exact sum of the entries");
            kani::cover!(x == 5 && y == 7, "ordinary amounts accepted");
        }
        Ok(_) => panic!("coin-only values aggregate to Coin"),
        Err(_) => {
            assert!(x as u128 + y as u128 > u64::MAX as u128, "a representable total is accepted");
            kani::cover!(x == u64::MAX && y == 1, "overflow rejected");
        }
    }
    std::mem::forget(r);
}
