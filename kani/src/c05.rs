//! C05(a) — the size fee is the protocol's linear function of the payload length, in
//! mathematical integers (no wrap), over the stated parameter ranges.

use crate::util::*;
use tx3_cardano::pallas;
use tx3_cardano::{ops, PParams};

fn pparams(a: u64, b: u64) -> PParams {
    PParams {
        network: pallas::ledger::primitives::NetworkId::Testnet,
        min_fee_coefficient: a,
        min_fee_constant: b,
        coins_per_utxo_byte: 4310,
        cost_models: std::collections::HashMap::new(),
    }
}

/// len <= 16384, a <= 1000, b <= 10^6, extra in {None, Some(any u64 <= 2^40)}
#[kani::proof]
#[kani::unwind(2)]
#[kani::stub(std::hash::RandomState::new, fixed_random_state)]
fn c05_size_fee_linear() {
    let a: u64 = kani::any();
    let b: u64 = kani::any();
    kani::assume(a <= 1000 && b <= 1_000_000);
    let len: usize = kani::any();
    kani::assume(len <= 16384);
    static BUF: [u8; 16384] = [0u8; 16384];
    let has_extra: bool = kani::any();
    let extra: u64 = kani::any();
    kani::assume(extra <= (1u64 << 40));
    let pp = pparams(a, b);
    let got = ops::eval_size_fees(&BUF[..len], &pp, if has_extra { Some(extra) } else { None });
    let margin: u128 = if has_extra { extra as u128 } else { 200_000 };
    let want: u128 = (len as u128) * (a as u128) + (b as u128) + margin;
    assert!(got as u128 == want, "fee = coefficient * size + constant + margin");
    kani::cover!(has_extra && extra == 0 && len == 300, "explicit zero margin reachable");
    kani::cover!(!has_extra && len == 16384, "default margin reachable");
    std::mem::forget(pp);
}

/// slot -> time is the affine map of the chain cursor (no wrap) for slot, cursor slot,
/// timestamp < 2^64
#[kani::proof]
#[kani::unwind(2)]
fn c05_slot_to_time_affine() {
    let cur_slot: u64 = kani::any();
    let ts: u64 = kani::any();
    let cursor = tx3_cardano::ChainPoint { slot: cur_slot, hash: Vec::new(), timestamp: ts as u128 };
    let slot: u64 = kani::any();
    let t = ops::slot_to_time(slot as i128, &cursor);
    assert!(t == ts as i128 + (slot as i128 - cur_slot as i128) * 1000, "slot_to_time affine");
    kani::cover!(slot < cur_slot, "past slot reachable");
    std::mem::forget(cursor);
}

/// time -> slot (division by 1000 truncating toward zero); 32-bit ranges (128-bit division is
/// what CBMC cannot bit-blast cheaply: the 64-bit version needed 215 s)
#[kani::proof]
#[kani::unwind(2)]
fn c05_time_to_slot_affine() {
    let cur_slot: u32 = kani::any();
    let ts: u32 = kani::any();
    let cursor = tx3_cardano::ChainPoint { slot: cur_slot as u64, hash: Vec::new(), timestamp: ts as u128 };
    let time: u32 = kani::any();
    let s = ops::time_to_slot(time as i128, &cursor);
    assert!(s == cur_slot as i128 + (time as i128 - ts as i128) / 1000, "time_to_slot affine");
    kani::cover!(time < ts, "past time reachable");
    std::mem::forget(cursor);
}
