//! C09 — datums and redeemers are standard Plutus Data (structure level).
//!
//! Oracle: the PlutusData *structure* prescribed by the Plutus Data convention;
//! pallas' CBOR emission of that structure is trusted (it is pallas' own codec).

use crate::util::*;
use tx3_cardano::compile::verif_hooks as hooks;
use tx3_cardano::pallas;
use tx3_cardano::pallas::ledger::primitives::{BigInt, MaybeIndefArray, PlutusData};
use tx3_tir::model::v1beta0 as tir;

/// spec of the constructor tag for alternative `i`
fn spec_tag(i: u64) -> (u64, Option<u64>) {
    if i <= 6 {
        (121 + i, None)
    } else if i <= 127 {
        (1280 + (i - 7), None)
    } else {
        (102, Some(i))
    }
}

fn check_constr(d: &PlutusData, idx: u64, nfields: usize) {
    match d {
        PlutusData::Constr(c) => {
            let (tag, any) = spec_tag(idx);
            assert!(c.tag == tag, "constructor tag follows the Plutus Data convention");
            assert!(c.any_constructor == any, "explicit constructor index only for the general tag");
            match &c.fields {
                MaybeIndefArray::Def(f) => assert!(f.len() == nfields, "field count"),
                MaybeIndefArray::Indef(f) => assert!(f.len() == nfields, "field count"),
            }
        }
        _ => panic!("a struct must compile to Constr"),
    }
}

/// integer spec: Int when it fits the 64-bit CBOR range, else bignum with the
/// big-endian magnitude (negative bignum n stands for -1 - n)
fn check_int(d: &PlutusData, x: i128) {
    match d {
        PlutusData::BigInt(BigInt::Int(i)) => {
            assert!(i128::from(*i) == x, "small integer is exact");
        }
        PlutusData::BigInt(BigInt::BigUInt(b)) => {
            let bytes: &Vec<u8> = b;
            assert!(x >= (1i128 << 64), "BigUInt only beyond the 64-bit range");
            let v = be_value(bytes);
            assert!(v == Some(x as u128), "BigUInt magnitude is exact");
        }
        PlutusData::BigInt(BigInt::BigNInt(b)) => {
            let bytes: &Vec<u8> = b;
            assert!(x < -(1i128 << 64), "BigNInt only beyond the 64-bit range");
            let v = be_value(bytes);
            // n = -1 - x
            assert!(v == Some((-1 - x) as u128), "BigNInt magnitude is exact");
        }
        _ => panic!("an integer must compile to BigInt"),
    }
}

/// leaves inside nested shapes are restricted to the i64 range (the bignum arms
/// are decided on their own by `c09_int_*`), so that no 16-byte loop is needed here
fn check_small_int(d: &PlutusData, x: i128) {
    match d {
        PlutusData::BigInt(BigInt::Int(i)) => assert!(i128::from(*i) == x, "integer field is exact"),
        _ => panic!("an integer in the i64 range must compile to BigInt::Int"),
    }
}

fn check_bytes(d: &PlutusData, expect: &[u8]) {
    match d {
        PlutusData::BoundedBytes(b) => {
            let got: &Vec<u8> = b;
            assert!(got.len() == expect.len(), "byte string length preserved");
            let mut i = 0;
            while i < expect.len() {
                assert!(got[i] == expect[i], "byte string content preserved");
                i += 1;
            }
        }
        _ => panic!("bytes must compile to BoundedBytes"),
    }
}

// ---------------------------------------------------------------------------

/// datum path: `compile_struct` -> tag for every constructor index (full usize range)
#[kani::proof]
#[kani::unwind(4)]
#[kani::stub(std::fmt::format, nofmt)]
fn c09_constr_tag_datum() {
    let idx: usize = kani::any();
    let s = tir::StructExpr { constructor: idx, fields: vec![] };
    let r = hooks::compile_struct(&s);
    match &r {
        Ok(d) => {
            check_constr(d, idx as u64, 0);
            kani::cover!(idx == 7, "alt 7 reachable");
            kani::cover!(idx > 127, "general tag reachable");
        }
        Err(_) => panic!("a constant struct always compiles"),
    }
    std::mem::forget(r);
    std::mem::forget(s);
}

/// redeemer path: `Expression::Struct(..).try_as_data()`
#[kani::proof]
#[kani::unwind(4)]
#[kani::stub(std::fmt::format, nofmt)]
fn c09_constr_tag_redeemer() {
    let idx: usize = kani::any();
    let e = tir::Expression::Struct(tir::StructExpr { constructor: idx, fields: vec![] });
    let r = hooks::try_as_data(&e);
    match &r {
        Ok(d) => {
            check_constr(d, idx as u64, 0);
            kani::cover!(idx == 127, "alt 127 reachable");
        }
        Err(_) => panic!("a constant struct always converts"),
    }
    std::mem::forget(r);
    std::mem::forget(e);
}

/// datum path, integers over the whole i128 range: total and exact
#[kani::proof]
#[kani::unwind(18)]
#[kani::stub(std::fmt::format, nofmt)]
fn c09_int_datum() {
    let x: i128 = kani::any();
    let e = num(x);
    let r = hooks::compile_data_expr(&e);
    match &r {
        Ok(d) => {
            check_int(d, x);
            kani::cover!(x > (1i128 << 70), "big positive reachable");
            kani::cover!(x < -(1i128 << 70), "big negative reachable");
        }
        Err(_) => panic!("every integer the language can express has a Plutus Data encoding"),
    }
    std::mem::forget(r);
    std::mem::forget(e);
}

/// redeemer path, integers over the whole i128 range
#[kani::proof]
#[kani::unwind(18)]
#[kani::stub(std::fmt::format, nofmt)]
fn c09_int_redeemer() {
    let x: i128 = kani::any();
    let e = num(x);
    let r = hooks::try_as_data(&e);
    match &r {
        Ok(d) => {
            check_int(d, x);
            kani::cover!(x == i128::MIN, "extreme reachable");
        }
        Err(_) => panic!("every integer the language can express has a Plutus Data encoding"),
    }
    std::mem::forget(r);
    std::mem::forget(e);
}

/// booleans and unit
#[kani::proof]
#[kani::unwind(4)]
#[kani::stub(std::fmt::format, nofmt)]
fn c09_bool_unit() {
    let b: bool = kani::any();
    let e = tir::Expression::Bool(b);
    let r1 = hooks::compile_data_expr(&e);
    let r2 = hooks::try_as_data(&e);
    match (&r1, &r2) {
        (Ok(d1), Ok(d2)) => {
            check_constr(d1, b as u64, 0);
            check_constr(d2, b as u64, 0);
        }
        _ => panic!("booleans always convert"),
    }
    let n = tir::Expression::None;
    let r3 = hooks::try_as_data(&n);
    match &r3 {
        Ok(d) => check_constr(d, 0, 0),
        _ => panic!("unit always converts"),
    }
    kani::cover!(b, "true reachable");
    std::mem::forget((r1, r2, r3, e, n));
}

/// byte-like leaves: every length 0..=5 (concrete loop), content symbolic; one
/// harness per leaf kind because a symbolic `Expression` discriminant sends CBMC
/// into every (recursive) arm.
macro_rules! bytes_leaf_harness {
    ($name:ident, $variant:ident, $datum:expr) => {
        #[kani::proof]
        #[kani::unwind(8)]
        #[kani::stub(std::fmt::format, nofmt)]
        fn $name() {
            let buf: [u8; 5] = kani::any();
            let mut len = 0;
            while len <= 5 {
                let bytes = buf[..len].to_vec();
                let e = tir::Expression::$variant(bytes.clone());
                let r = hooks::try_as_data(&e);
                match &r {
                    Ok(d) => check_bytes(d, &bytes),
                    Err(_) => panic!("byte-like leaves always convert"),
                }
                if $datum {
                    let r2 = hooks::compile_data_expr(&e);
                    match &r2 {
                        Ok(d) => check_bytes(d, &bytes),
                        Err(_) => panic!("byte-like leaves always compile"),
                    }
                    std::mem::forget(r2);
                }
                std::mem::forget(r);
                std::mem::forget(e);
                len += 1;
            }
            kani::cover!(buf[4] == 0xff, "content symbolic");
        }
    };
}
bytes_leaf_harness!(c09_bytes_leaf, Bytes, true);
bytes_leaf_harness!(c09_address_leaf, Address, true);
bytes_leaf_harness!(c09_hash_leaf, Hash, true);

// Nested shapes (records with fields, lists, maps) are decided by engine M on the MIR of
// compile_struct / try_as_data: under Kani the iterator machinery of
// `.iter().map(..).collect::<Result<Vec<_>,_>>()` over a recursive enum did not finish
// within 400 s for a 2-3 element container (probed), so K keeps to the leaves.
