//! Engine K: Kani proof harnesses over the *compiled* code of tx3-cardano / tx3-tir.
//!
//! Every harness calls the repository's real functions (private ones through the
//! cfg(kani|tx3_verif)-guarded forwarders in `tx3_cardano::compile::verif_hooks`),
//! with scalars, lengths and bytes symbolic (`kani::any()`), and asserts the
//! property's oracle.  Bounds are the `#[kani::unwind]` values and the stated
//! length ranges; Kani's unwinding assertions stay on, so a too-small bound is a
//! failure, not a silent truncation.
//!
//! Recipe (DESIGN.md §1.1): values of recursive types are `mem::forget`-ed (their
//! drop glue would otherwise be unrolled without bound); `std::fmt::format` and
//! `ByronAddress::to_vec` are stubbed (error-message text and Byron addresses are
//! outside every claim).
#![allow(clippy::all)]
#![allow(unused)]

#[cfg(kani)]
mod util;

#[cfg(kani)]
mod c02;
#[cfg(kani)]
mod c05;
#[cfg(kani)]
mod c09;
#[cfg(kani)]
mod c14;
