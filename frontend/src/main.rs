//! Runs the repository's *real* front end (parse -> analyze -> lower) on a source file and prints
//! the TIR of every transaction as JSON (serde's view of tx3_tir::model::v1beta0::Tx), for the
//! translation-validation corpus of C01.  Usage: frontend <file.tx3>
use std::collections::BTreeMap;

fn main() {
    let path = std::env::args().nth(1).expect("usage: frontend <file.tx3>");
    let src = std::fs::read_to_string(&path).expect("readable source");
    let mut out = BTreeMap::new();
    let ast = match tx3_lang::parsing::parse_string(&src) {
        Ok(x) => x,
        Err(e) => {
            println!("{}", serde_json::json!({"error": format!("parse: {e:?}")}));
            return;
        }
    };
    let mut ast = ast;
    let report = tx3_lang::analyzing::analyze(&mut ast);
    if !report.errors.is_empty() {
        println!("{}", serde_json::json!({"error": format!("analyze: {:?}", report.errors)}));
        return;
    }
    for tx in ast.txs.iter() {
        let name = tx.name.value.clone();
        match tx3_lang::lowering::lower(&ast, &name) {
            Ok(tir) => {
                out.insert(name, serde_json::to_value(&tir).unwrap());
            }
            Err(e) => {
                out.insert(name, serde_json::json!({"error": format!("lower: {e:?}")}));
            }
        }
    }
    // the facade clients and the tx3c compiler go through: Workspace::lower + Workspace::tir(name)
    // must hand out, for every transaction, the IR that lowering produced for *that* transaction
    let mut mismatch = Vec::new();
    let mut ws = tx3_lang::Workspace::from_string(src.clone());
    match ws.lower() {
        Ok(()) => {
            for (name, direct) in out.iter() {
                let via = ws.tir(name).map(|t| serde_json::to_value(t).unwrap());
                if via.as_ref() != Some(direct) {
                    mismatch.push(name.clone());
                }
            }
        }
        Err(e) => mismatch.push(format!("workspace: {e:?}")),
    }
    out.insert("__facade_mismatch__".to_string(), serde_json::json!(mismatch));
    println!("{}", serde_json::to_string(&out).unwrap());
}
