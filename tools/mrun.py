#!/usr/bin/env python3-vt
"""dev runner: tools/mrun.py C15 [harness,...] [--tier thorough]"""
import sys, os, json, time
V = os.path.dirname(os.path.dirname(os.path.abspath(__file__)))
sys.path[:0] = [os.path.join(V, "lib"), os.path.join(V, "mirsym"), V]
import mharness
prop = sys.argv[1]
only = sys.argv[2] if len(sys.argv) > 2 and not sys.argv[2].startswith("--") else None
tier = "thorough" if "--tier" in sys.argv and sys.argv[sys.argv.index("--tier") + 1] == "thorough" else "quick"
cov = dict(states=0, transitions=0, traces_validated_against_impl=0, samples=[], harnesses=[], functions_encoded=[], bounds=[], trusted_base=[], queries=0, solver_s=0.0, obligations=0, discharged=0)
findings, inc, ass = [], [], []
mharness.run(prop, tier, 0, cov, findings, inc, ass, only=only)
for h in cov["harnesses"]:
    print("%-30s %-12s paths=%-6d dec=%-6d obl=%d/%d q=%d solver=%.1fs wall=%.1fs %s" % (h["harness"], h["status"], h["paths"], h["decisions"], h["discharged"], h["obligations"], h["queries"], h["solver_s"], h["wall_s"], h["why"][:300]))
for f in findings:
    print("FINDING", f.harness, "|", f.site, "|", f.shape, "|", f.detail[:300])
