#!/bin/bash
# usage: confirm_seed.sh <worktree> <seed dir (patch.diff + demo)> <demo file> <dest path rel to worktree> <cargo test args for the demo>
# Confirms in a scratch worktree: (1) suite green with the patch, (2) demo fails with the patch, (3) demo passes without it.
wt=$1; sd=$2; demo=$3; dest=$4; shift 4
export CARGO_NET_OFFLINE=true CARGO_TARGET_DIR=$wt/target
log=$sd/confirm.log; : > $log
cd $wt && git checkout -q -- . && git clean -fdq -e target
# a demo that is a test file may come with a demo.diff (e.g. a dev-dependency it needs): applied with it
extra=""; if [[ $demo != *.diff ]] && [ -f $sd/demo.diff ]; then extra=$sd/demo.diff; fi
install_demo() { if [[ $demo == *.diff ]]; then git apply $sd/$demo; else mkdir -p $(dirname $wt/$dest) && cp $sd/$demo $wt/$dest; [ -n "$extra" ] && git apply $extra; fi; }
remove_demo() { if [[ $demo == *.diff ]]; then git apply -R $sd/$demo; else rm -f $wt/$dest; [ -n "$extra" ] && git apply -R $extra; fi; }
install_demo
echo "== demo WITHOUT patch" >> $log
cargo test --offline "$@" >> $log 2>&1; a=$?
git apply $sd/patch.diff || { echo "PATCH DOES NOT APPLY" | tee -a $log; exit 3; }
echo "== demo WITH patch" >> $log
cargo test --offline "$@" >> $log 2>&1; b=$?
remove_demo
echo "== suite WITH patch" >> $log
cargo test --workspace --offline >> $log 2>&1; c=$?
if [ $c -ne 0 ]; then  # the two known-flaky proptests may flake: one retry
  cargo test --workspace --offline >> $log 2>&1; c=$?
fi
git checkout -q -- . && git clean -fdq -e target
echo "demo_without_patch_rc=$a demo_with_patch_rc=$b suite_with_patch_rc=$c" | tee -a $log
[ $a -eq 0 ] && [ $b -ne 0 ] && [ $c -eq 0 ] && echo CONFIRMED | tee -a $log
