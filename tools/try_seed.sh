#!/bin/bash
# usage: try_seed.sh <seed name> [check args...]   — applies the patch to /repo, runs ./check <prop>, undoes it
name=$1; shift
d=/verif/seeded/$name
prop=$(python3 -c "import json;print(json.load(open('$d/meta.json'))['property'])")
cd /repo && git diff --quiet || { echo "/repo not clean"; exit 9; }
git -C /repo apply $d/patch.diff || { echo "patch does not apply"; exit 9; }
cd /verif && ./check $prop "$@" > /verif/.cache/try_$name.out 2>&1; rc=$?
git -C /repo checkout -- .
echo "== $name ($prop): rc=$rc"; grep -E "^(VIOLATION|INCONCLUSIVE|OK|KNOWN)" /verif/.cache/try_$name.out | cut -c1-300
exit $rc
