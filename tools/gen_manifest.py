#!/usr/bin/env python3
"""Regenerates /verif/MANIFEST.json from the tables below (kept valid at all times)."""
import json, os
V = os.path.dirname(os.path.dirname(os.path.abspath(__file__)))

CLAIMED = {
 "C02": dict(
   technique="bounded model checking of the compiled conversion and reducer kernels (Kani/CBMC, full i128 range) + symbolic execution of the MIR (mirsym/z3) for container-backed sites",
   text="For every i128 value, each numeric conversion site of the Cardano compiler (lovelace, native asset, mint, burn, validity slots, metadata integers) and each scalar operation of the reducer (add, neg, None as zero) returns the exact mathematical value or an error: decided by CBMC over the compiled code, not sampled. Bounded model checking, not proof: loops unwound to stated bounds, shapes concrete. Added: the value aggregation of an output (two lovelace entries, one token named twice) and of the mint field (two mints, two burns, a mint and a burn of one asset class) is exact or an error; withdrawal amount, donation and metadata label over the whole i128 range; datum / redeemer integers (K harnesses of C09 cross-listed); a UTxO is consumed once and counted once through the resolver (C04 harness cross-listed).",
   note="Kani 0.68/CBMC 6.11; stubs: std::fmt::format, hex::encode (error text). Two known findings (negative lovelace wraps, negative token dropped) are recorded because the repository's own tests rely on them.",
   design="§3 C02"),
 "C05": dict(
   technique="bounded model checking of the fee arithmetic (Kani/CBMC) + symbolic execution of the MIR of apply_fees, Compiler::compile and the resolve loop (mirsym -> z3) against an uninterpreted compiler function",
   text="(a) the size fee is a*len+b+margin in mathematical integers for every len<=16384, a<=1000, b<=10^6 and margin (CBMC on the compiled code); (b) for every u64 fee the body fee written by the real compile_tx_body is the applied fee and a fee-dependent output is computed with the same fee; (c) Compiler::compile reports the size fee of the payload it returns; (d) resolve_tx / eval_pass executed from MIR against an uninterpreted compiler F: every pass is evaluated with the previous pass's reported fee, a missing argument is refused before any pass, and for every F whose fee sequence settles by pass max_optimize_rounds + 2 the returned transaction is a fixed point (body fee == reported fee).",
   note="In (d) the compiler is an uninterpreted function (payload injective in the applied fee); templates oscillating beyond the round cap are outside the claim. Kani: RandomState::new stubbed to build an empty cost-model map.",
   design="§3 C05"),
 "C09": dict(
   technique="bounded model checking of the Plutus Data conversions (Kani/CBMC)",
   text="For every constructor index in the usize range and every i128, the datum path (compile_data_expr/compile_struct) and the redeemer path (try_as_data) produce the Plutus Data structure the convention prescribes (tags 121-127 / 1280-1400 / 102+index; Int or bignum with exact magnitude); byte-like leaves of length 0..5 are preserved. Solver verdict over all values within the bounds. Added: field order decided by the front end - corpus programs with out-of-order fields, spreads and variant cases run through the real parse/analyze/lower and then the back end from MIR.",
   note="pallas' CBOR emission of the PlutusData structure is trusted; nested shapes are outside K (see DESIGN.md).",
   design="§3 C09"),
 "C14": dict(
   technique="bounded model checking for absence of panics (Kani/CBMC), symbolic lengths 0..=33",
   text="No feasible panic in the hash/policy/key-hash/script-address constructors for byte strings of every length 0..33, in integer-to-data conversion for every i128, in mint/burn amounts for every i128. CBMC checks every implicit panic site (unwrap, index, overflow, slice copy) on the compiled code. Added (engine M): every chain-specific directive with each field absent or of any of 16 expression kinds; every coercion function of tx3-cardano on 33 expression kinds; IntoDatum / IntoAssets of an input bound to 0..2 UTxOs; input selection over a wallet wider than the search window.",
   note="Kani/CBMC; stubs: std::fmt::format, hex::encode, ByronAddress::to_vec.",
   design="§3 C14"),
 "C15": dict(
   technique="symbolic execution of the MIR of CanonicalAssets (mirsym -> z3): real bodies vs. pointwise specifications, hash map as association list with symbolic presence",
   text="For 4 asset classes with symbolic presence and symbolic i128 amounts, the real add/sub/neg, every constructor, contains_total/contains_some/is_empty/is_empty_or_negative/is_only_naked, == and the AssetExpr round trip are executed from rustc's MIR and shown equal to their pointwise specification on every path (z3 unsat per obligation); a panic path is accepted only where an i128 operation genuinely overflows. Bounded model checking: class universe of 4, one call per harness.",
   note="mirsym interpreter and its std models (HashMap, iterators, Option) are the trusted base; keys are concrete distinct byte strings.",
   design="§3 C15"),
 "C19": dict(
   technique="symbolic execution of the MIR of the parse-error conversion (mirsym -> z3) against pest's location contract",
   text="For every input length 0..12 and every location pest can report (Pos / Span with symbolic absolute offsets within the input), the parse error built by the real code carries a source text and a span with start <= end <= len(text), the text being the very input the offsets refer to; the display-span conversion does not underflow. Bounded model checking over the conversion functions; analysis-error spans and UTF-8 boundaries are outside. Added: the label rendered for a parse error covers exactly the span; pest's line/column contract; the analyzer's two not-in-scope sites (Identifier, VariantCaseConstructor) executed from MIR: the diagnostic carries the name's own span and text.",
   note="pest's Error object is a contract model (field order read from the pinned pest source); mirsym interpreter + std models trusted.",
   design="§3 C19"),
 "C08": dict(
   technique="symbolic execution of the MIR of the redeemer and body assembly (mirsym -> z3) with symbolic transaction ids, output indices and policy ids",
   text="For 2-3 script inputs and 2-3 mint/burn blocks whose txid byte, output index (u32) and policy byte are symbolic - every relative order - the real compile_tx_body + compile_redeemers are executed from MIR and the emitted (tag, index) -> data map is shown equal to the map obtained by ranking each item among the ledger-sorted inputs / policies: one redeemer per guarded item, at the index of that item. Bounded: <= 3 items per kind, integer redeemer data. Added: a policy whose mint and burn cancel while carrying redeemers, next to another minted policy.",
   note="mirsym + std/pallas models (BTreeMap as ordered association list, sort with forked comparisons). Withdrawal redeemers and multi-UTxO inputs: see known findings / DESIGN.",
   design="§3 C08"),
 "C03": dict(
   technique="symbolic execution of the MIR of query canonicalisation, search-space narrowing and coin selection (mirsym -> z3), async state machines driven against a store model with symbolic contents, every candidate order",
   text="For stores of 2 (quick) / 3 (thorough) UTxOs whose address, lovelace, token presence and token amount are symbolic, and every query shape reachable from the language (address none/A/B x ref none/own/dangling x min_amount over lovelace and one token x single/many x input/collateral), the real narrowing + selection code is executed from MIR on every path and every candidate order; z3 shows that each bound UTxO satisfies every stated constraint (soundness) and that an empty result implies no covering candidate exists (completeness). Added: 3-candidate stores in the quick tier for the accumulation and trimming steps of the multi-UTxO picker (6-bit amounts quick, 40-bit thorough).",
   note="UtxoStore is a contract model; sort_candidates (floats) is replaced by all permutations; amounts below 2^16 (quick) / 2^40 (thorough); window of 50 not binding. A change that routes selection through the f64 log-compression (`map_i128_to_u32_log`) leaves the check inconclusive: floating point is not modelled.",
   design="§3 C03"),
 "C04": dict(
   technique="symbolic execution of the MIR of inputs::resolve (async) and compile_inputs (mirsym -> z3) on templates with overlapping input blocks",
   text="For templates with 2-3 input blocks whose queries overlap (same party, ref into the party's UTxOs, collateral) over a store with symbolic contents, the real resolve (one selector, ignore set, apply_inputs) is executed from MIR on every path and candidate order: z3-checked obligations show the bound sets pairwise disjoint, every resolved block non-empty, and the flattened input list of the real compile_inputs to contain each selected UTxO exactly once. Added: the body's input list when a reference or collateral input names a selected UTxO; a concrete wallet of 51 / 70 UTxOs so that the real MAX_SEARCH_SPACE_SIZE (50) is reached.",
   note="same store model and bounds as C03; block names concrete.",
   design="§3 C04"),
 "C06": dict(
   technique="symbolic execution of the MIR of the Composite/Apply traversals and of safe_apply_args (mirsym -> z3), one template per leaf position, independent structural walk as oracle",
   text="For 53 template positions (every Tx field, every Expression container, every BuiltInOp / Coerce / CompilerOp operand, the fields of a nested input query, `fees` and inputs nested in expressions) the real find_params / find_queries report exactly the leaves an independent walk of the value tree finds, and after the real apply_args / apply_inputs / apply_fees (3 stage orders, symbolic argument and fee) and reduce the walk finds no unresolved parameter; safe_apply_args refuses with MissingTxArg naming a missing parameter exactly when a reported parameter is absent, for all 128 argument maps over 3 declared + 4 undeclared keys (presence symbolic). Added: the datum of an input and `fees` as leaves at every transaction field; queries closed with the empty UTxO set.",
   note="mirsym + std models; structure of each template concrete, values symbolic; depth <= 3.",
   design="§3 C06"),
 "C07": dict(
   technique="symbolic execution of the MIR of the staged application, reduce and compiler-op visitor (mirsym -> z3): every schedule compared with a reference schedule under symbolic arguments, UTxO contents and fee",
   text="For 7 templates exercising asset arithmetic over inputs and fees, time/slot and script-address built-ins on parameters, a parameterised asset name, a datum-less input under subtraction, indexing and nested queries, every schedule (stage orders of {args, inputs, fees, compiler-ops} with args before compiler-ops x reduce interleavings; a seeded sample in quick, all 192 in thorough) is executed from MIR next to the reference schedule and z3 shows the two fully reduced templates structurally equal for all argument/UTxO/fee values; reduce of the result is shown idempotent.",
   note="real tx3-cardano Compiler::reduce_op for the built-ins (min_utxo excluded); asset lists and UTxO sets compared as sorted multisets.",
   design="§3 C07"),
 "C10": dict(
   technique="symbolic execution of the MIR of entry_point, compile_mint_block, compile_witness_set and Compiler::compile (mirsym -> z3) with encoders and digests as uninterpreted functions and hash-container iteration order explored exhaustively",
   text="Structure-level self-consistency: over 144 template shapes (network x metadata x redeemers x witness scripts x signers x references) the emitted body carries the configured network id, auxiliary-data and script-data hashes exactly when metadata / redeemers are present and taken of the very values that are emitted, no empty set-like field; for all mint/burn amounts below 2^62 the net quantity is exact and cancelling amounts leave neither a zero quantity nor an empty policy nor an empty mint map; witness-script order is independent of hash iteration order; Compiler::compile reports the hash of the body it serialises, remembers that body, and reports the size fee of the returned payload. Added: signers, reference inputs and collateral inputs written twice appear once, in an order independent of hash iteration; redeemers on a withdrawal / on a spent input as cases of the presence checks.",
   note="byte-level well-formedness, digest values and decoder acceptance are outside (encoders/digests uninterpreted); pallas constructors are contracts.",
   design="§3 C10"),
 "C16": dict(
   technique="symbolic execution of the MIR of the JSON coercions, envelope decoding and request assembly (mirsym -> z3) over strings of symbolic bytes with text-primitive models",
   text="from_json inverts the documented encodings for every value within the bounds: every i128 through 0x + 32 hex digits (both cases), decimal strings of 1-6 digits with optional sign, every JSON integer, the five boolean forms (and nothing else among all 4/5-character strings and all integers), 0-3 bytes as bare and 0x hex, txid#index with 1-4 digit indices; for every string of up to 4 (quick) / 6 (thorough) printable ASCII characters and every target type the result is Ok only for a documented encoding and never a panic; envelope decoding never panics for any content of up to 4 characters; parse_resolve_request hands over exactly the declared parameters that args or env supply (presence of each key symbolic), coerced by declared type. Added: addresses as hex; {content, encoding} byte envelopes; every JSON kind x 11 target types; multi-byte UTF-8 text (str slicing off a char boundary panics in the model as in std); ill-formed values of declared parameters under args or env are refused. Counterexamples of the from_json harnesses are replayed on the native binary before they are reported.",
   note="string primitives (starts_with, strip_prefix, trim_start_matches, split_once, hex::decode, from_str_radix, parse) are models; base64 / bech32 / ciborium are uninterpreted; serde_json parsing happens before this code.",
   design="§3 C16"),
 "C01": dict(
   technique="translation validation per corpus program: real front end run natively, back end executed symbolically from MIR (mirsym -> z3), body compared with a hand-written denotation",
   category="translation_validation",
   text="24 corpus programs (integer arithmetic with left-nested and parenthesised subtraction and negation, multi-asset arithmetic, input datum with spread, out-of-order record fields and variant cases, mint/burn/validity/signers/metadata/reference/collateral, net mint of several blocks, list index / concat / list / map literals, indexed access into an input datum, locals and env, a policy read as address / bytes / asset, time/slot built-ins before and after the chain tip, two inputs, a metadata integer over the whole i128 range, datum fields used in validity / signers / metadata, min_utxo of a named output behind anonymous and optional outputs incl. a second pass, withdrawal and donation, publish with reference script, vote-delegation certificate, asset definitions, aliases, a many-input, a burn, two transactions whose names differ in case, a record field named like the parameter assigned to it, Bool / string / unit values, a collateral block selected by party, nested lists and maps of records, concat in an asset name, a declared policy inside AnyAsset, a script-locked input with a burn) x 3 whitespace/comment layouts are parsed, analysed and lowered by the repository's own front end; the lowered TIR is then applied, reduced and compiled by the real back end executed from MIR with arguments, UTxO amounts and fee symbolic, and z3 shows every output (address, lovelace, per-class native assets, datum tree, order), mint quantity, validity bound, signer, reference, collateral, input, metadata entry and the fee equal to the denotation written by hand for that program.",
   note="programs are enumerated (the corpus), not solver-quantified; counterexamples about outputs, fee and validity are replayed on the native binary (it must observe what engine M computed) before they are reported; one known finding (min_utxo of an output behind an omitted optional output); amounts below 2^16 (quick) / 2^40 (thorough); one UTxO per input; byte-level CBOR outside.",
   design="§3 C01, §A.6"),
 "C20": dict(
   technique="symbolic execution of the MIR of resolve_tx / eval_pass with the real Cardano Compiler (compile, reduce_op, compute_min_utxo) run twice - fresh vs. arbitrary left-over state - and structural comparison of the two outcomes (mirsym -> z3); differences resting on uninterpreted encoded lengths are decided by native replay",
   text="For a template sizing output k in {0,1} with min_utxo and paying `fees`, resolve_tx (<= 5 passes) is executed from MIR on a fresh Compiler (built by the real constructor) and on one whose latest_tx_body is arbitrary (absent, or a body with 0..2 arbitrary outputs) or that really resolved an earlier template before (succeeding, or using min_utxo and failing in its second pass); a second harness resolves a target with an input over a store of one UTxO of symbolic value: both runs end Ok with structurally equal payload, hash and fee terms, or Err of the same kind, on every path (z3 unsat per obligation). Bounded: templates of two outputs without inputs and one template with one input, histories of one earlier resolution (or arbitrary content of latest_tx_body), max_optimize_rounds = 3.",
   note="CBOR encoders / digests are injective uninterpreted functions and encoded lengths uninterpreted: a difference between two Ok outcomes is reported only when the native replay binary reproduces it with a concrete earlier template; Ok-vs-Err differences of templates without inputs are definite; with an input they depend on such a length and are searched for on the real build as well.",
   design="§3 C20, §A.7"),
 "C17": dict(
   technique="symbolic execution of the MIR of the interface emitter (bin/tx3c: tii::infer_tx_params_schema, tii::infer_env_schema) and of the analyzer / lowering path that names IR parameters (Scope::track_param_var / track_env_var, <Identifier as IntoLower>::into_lower, find_params) on one symbolic identifier (mirsym -> z3)",
   text="For every identifier of 1..3 characters over the grammar's alphabet ([A-Za-z_][A-Za-z0-9_]*) used as a transaction parameter or as an environment entry, the key under which the emitted interface declares it equals, byte for byte, the key find_params reports for a use of it in the lowered IR; two parameters are declared separately exactly when the IR tells them apart (z3 unsat per obligation). Partial: parties, the dotfile profile values, the embedded IR bytes and the JSON serialisation of the TII file are not covered.",
   note="serde_json Map / to_value / from_value are models; the analyzer hands the source spelling to track_param_var / track_env_var (read, not executed: TxDef::analyze needs the whole scope chain).",
   design="§A.8"),
}

NA = {
 "C01": "not yet built: planned as translation validation over a corpus with engine M (DESIGN.md §3 C01)",
 "C03": "not yet built: needs engine M (hash containers, async) — DESIGN.md §3 C03",
 "C04": "not yet built: needs engine M — DESIGN.md §3 C04",
 "C06": "not yet built: needs engine M — DESIGN.md §3 C06",
 "C07": "not yet built: needs engine M — DESIGN.md §3 C07",
 "C08": "not yet built: needs engine M — DESIGN.md §3 C08",
 "C10": "not yet built: needs engine M — DESIGN.md §3 C10",
 "C11": "serde/ciborium-derived codec: no repository function body to encode; Kani ICEs when from_bytes is linked; modelling serde+ciborium would verify a model, not the code (DESIGN.md §4)",
 "C12": "front end cannot be compiled by Kani (miette/backtrace) and is a generated PEG interpreter over strings: symbolic execution degenerates to enumeration (DESIGN.md §4)",
 "C13": "quantifier over program structure through Rc<Scope>/HashMap symbol resolution: outside solver-based checking here (DESIGN.md §4)",
 "C15": "not yet built: needs engine M — DESIGN.md §3 C15",
 "C16": "not yet built: needs engine M (string models) — DESIGN.md §3 C16",
 "C17": "not built: would need engine M over the tx3c binary crate plus construction of tx3-lang AST values (name spelling in the TII emitter vs. the lowering); no check is registered — DESIGN.md §A.6",
 "C18": "cross-process hyper-property whose only mechanism is HashMap iteration inside serde: no function body of the repository to encode (DESIGN.md §4)",
 "C19": "not yet built: engine M over tx3-lang MIR — DESIGN.md §3 C19",
 "C20": "two-run comparison over uninterpreted encoders is under-constrained (spurious counterexamples); a stronger sufficient condition would demand more than the property states (DESIGN.md §4)",
}

def main():
    m = json.load(open(os.path.join(V, "MANIFEST.json")))
    m["checks"] = []
    for pid, c in sorted(CLAIMED.items()):
        m["checks"].append(dict(
            property_id=pid,
            quick_cmd="./check %s --tier quick" % pid,
            thorough_cmd="./check %s --tier thorough" % pid,
            evidence_file="/verif/evidence/%s.json" % pid,
            replay_cmd_template="./check %s --replay {path}" % pid,
            engine=c.get("engine", "K+M"),
            level_claimed=dict(category=c.get("category", "model_checking"), text=c["text"], design_ref=c["design"]),
            level_note=c["note"],
            technique=c["technique"]))
    m["not_applicable"] = [dict(property_id=k, reason=v) for k, v in sorted(NA.items()) if k not in CLAIMED]
    json.dump(m, open(os.path.join(V, "MANIFEST.json"), "w"), indent=1)
    try:
        import jsonschema
        jsonschema.validate(m, json.load(open("/root/.vp/MANIFEST.schema.json")))
        print("manifest valid;", len(m["checks"]), "checks,", len(m["not_applicable"]), "not applicable")
    except ImportError:
        print("jsonschema not available; not validated")

main()
