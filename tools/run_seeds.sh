#!/bin/bash
# runs every seeded mutation of /verif/seeded against its property's quick check and records
# which harnesses caught it in meta.json (detected_by) — /repo is restored after each one
cd /verif
for d in seeded/*/; do
  name=$(basename $d); [ "$name" = "_superseded" ] && continue
  if [ -n "$ONLY" ] && ! echo "$name" | grep -Eq "$ONLY"; then continue; fi
  if [ -n "$NEWONLY" ] && grep -q detected_by $d/meta.json; then continue; fi
  tools/try_seed.sh $name "$@" > .cache/seedrun_$name.txt 2>&1; rc=$?
  python3 - "$name" "$rc" <<'PY'
import json, sys, re
name, rc = sys.argv[1], int(sys.argv[2])
out = open('/verif/.cache/try_%s.out' % name).read()
hs = sorted(set(re.findall(r"harness=(\S+)", out)) - set())
viol = [l for l in out.split("\n") if l.startswith("VIOLATION")]
# harnesses named on the detail line after each VIOLATION
det = sorted(set(re.findall(r"^\s+harness=(\S+)", out, re.M)))
p = '/verif/seeded/%s/meta.json' % name
m = json.load(open(p))
m['detected_by'] = dict(check_exit_code=rc, violation_lines=len(viol), harnesses=det, tier='quick')
json.dump(m, open(p, 'w'), indent=1)
print("%-40s rc=%d %s" % (name, rc, ",".join(det)))
PY
done
