#!/bin/bash
# usage: ingest_seed.sh <PROP> <mN> <seed-name>
# takes /tmp/r2seed_<PROP>/<mN>, confirms it at /repo's HEAD in the scratch worktree /tmp/r2_<PROP>, and on
# success stores it as /verif/seeded/<PROP>-<seed-name>
p=$1; m=$2; name=$p-$3
R=${ROUND:-r2}; src=/tmp/${R}seed_$p/$m; wt=/tmp/${R}_$p; dst=/verif/seeded/$name
[ -d $src ] || { echo "no $src"; exit 2; }
head=$(git -C /repo rev-parse --short HEAD)
git -C $wt checkout -q -- . ; git -C $wt clean -fdq -e target; git -C $wt checkout -q --detach $head || exit 3
read demo dest args < <(python3 - $src <<'PY'
import json,sys,re
d=json.load(open(sys.argv[1]+"/meta.json"))
demo=d["demonstration"].strip()
pl=d["demo_placement"]
dest=pl.split(";")[0].strip().split()[0]
m=re.search(r"cargo test (.*)$", pl.split(";",1)[1] if ";" in pl else pl)
args=m.group(1) if m else ""
args=re.sub(r"--offline|-j ?\d+","",args).strip()
print(demo, dest, args)
PY
)
echo "demo=$demo dest=$dest args=$args"
rm -rf $dst; mkdir -p $dst; cp $src/patch.diff $src/$demo $src/README.txt $src/meta.json $dst/; [ -f $src/demo.diff ] && cp $src/demo.diff $dst/
out=$(/verif/tools/confirm_seed.sh $wt $dst $demo $dest $args 2>&1 | tail -2)
echo "$out"
if echo "$out" | grep -q CONFIRMED; then
python3 - $dst "$head" "$out" "$dest" "$args" <<'PY'
import json,sys
p=sys.argv[1]+"/meta.json"; m=json.load(open(p))
m["source"]="independent sub-agent (later round: asked for subtle changes in less obvious places) given only the property text and a scratch worktree"
m["confirmed_by"]="tools/confirm_seed.sh in a scratch worktree: demo passes without the patch, fails with it, `cargo test --workspace --offline` green with it"
m["confirmed_at_repo_commit"]=sys.argv[2]
m["confirm_result"]=sys.argv[3].split("\n")
m["demo_placement"]="%s; cargo test --offline %s" % (sys.argv[4], sys.argv[5])
json.dump(m,open(p,"w"),indent=1)
PY
echo "STORED $dst"
else
  echo "NOT CONFIRMED: $name"; mv $dst /tmp/rejected_$name 2>/dev/null
fi
