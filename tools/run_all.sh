#!/bin/bash
# runs every claimed check (quick unless --tier thorough) on /repo as it is; prints one line each
cd /verif
for p in $(python3 -c "import json;print(' '.join(c['property_id'] for c in json.load(open('MANIFEST.json'))['checks']))"); do
  s=$(date +%s); ./check $p "$@" > .cache/all_$p.out 2>&1; rc=$?
  echo "$p rc=$rc $(( $(date +%s) - s ))s $(grep -cE '^KNOWN-FINDING' .cache/all_$p.out) known; $(grep -E '^(VIOLATION|INCONCLUSIVE)' .cache/all_$p.out | head -2 | cut -c1-160)"
done
