#!/usr/bin/env python3
"""rewrites the auto-generated tables of DESIGN.md (between the BEGIN/END markers)"""
import json, os, glob, re
V = os.path.dirname(os.path.dirname(os.path.abspath(__file__)))
rows = ["| seeded change | property | what it breaks | needs | caught by (quick tier) | first run |", "|---|---|---|---|---|---|"]
for d in sorted(glob.glob(os.path.join(V, "seeded", "*", "meta.json"))):
    name = os.path.basename(os.path.dirname(d))
    m = json.load(open(d))
    det = m.get("detected_by") or {}
    hs = ", ".join(det.get("harnesses", [])[:4]) + (" …" if len(det.get("harnesses", [])) > 4 else "")
    first = m.get("first_run", "caught")
    first = first.replace("missed (or inconclusive) by the check as it stood when the seed arrived; caught after: ", "MISSED; added: ")
    rows.append("| %s | %s | %s | %s | %s | %s |" % (name, m["property"], m["breaks"].replace("|", "/")[:150], m["needs_to_manifest"].replace("|", "/")[:110],
                                            ("exit %s: %s" % (det.get("check_exit_code"), hs)) if det else "not run", first.replace("|", "/")))
txt = open(os.path.join(V, "DESIGN.md")).read()
block = "<!-- BEGIN SEEDED TABLE -->\n" + "\n".join(rows) + "\n<!-- END SEEDED TABLE -->"
txt = re.sub(r"<!-- BEGIN SEEDED TABLE -->.*?<!-- END SEEDED TABLE -->", lambda _: block, txt, flags=re.S)
# ---- harness inventory (as built)
import sys, importlib
sys.path[:0] = [os.path.join(V, "lib"), os.path.join(V, "mirsym"), V]
import props
inv = ["| property | harness | engine | tier | bounds |", "|---|---|---|---|---|"]
claimed = [c["property_id"] for c in json.load(open(os.path.join(V, "MANIFEST.json")))["checks"]]
nk = nm = 0
for pid in claimed:
    for h in props.k_harnesses(pid, "thorough"):
        d = props.K[h]
        inv.append("| %s | %s | K | %s | %s |" % (pid, h, d["tier"], d["bounds"].replace("|", "/")))
        nk += 1
    try:
        mod = importlib.import_module("harness.%s" % pid.lower())
    except ModuleNotFoundError:
        continue
    for h in mod.HARNESSES:
        inv.append("| %s | %s | M | %s | %s |" % (pid, h["name"], h.get("tier", "quick"), h["bounds"].replace("|", "/")[:260]))
        nm += 1
block2 = "<!-- BEGIN HARNESS TABLE -->\n" + "\n".join(inv) + "\n<!-- END HARNESS TABLE -->"
if "<!-- BEGIN HARNESS TABLE -->" in txt:
    txt = re.sub(r"<!-- BEGIN HARNESS TABLE -->.*?<!-- END HARNESS TABLE -->", lambda _: block2, txt, flags=re.S)
open(os.path.join(V, "DESIGN.md"), "w").write(txt)
print(len(rows) - 2, "seeded rows;", nk, "K harness rows,", nm, "M harness rows")
